#!/usr/bin/env python3
# tools/store_seed.py <Cxx> <A|B> <dest letter> <round> <caught_by,comma> [how]
#  copies a confirmed sub-agent change from $SEED_PREFIX-<Cxx> into /verif/seeded/<Cxx>-<dest>/
import json, os, shutil, sys, re
p, m, dest, rnd, caught = sys.argv[1:6]
how = sys.argv[6] if len(sys.argv) > 6 else "caught by the quick checks listed as they stood"
sd = os.environ.get("SEED_PREFIX", "/tmp/seed") + "-" + p
wt = os.environ.get("WT_PREFIX", "/tmp/wt") + "-" + p
out = f"/verif/seeded/{p}-{dest}"
os.makedirs(out, exist_ok=True)
shutil.copy(f"{sd}/{m}.diff", f"{out}/patch.diff")
shutil.copy(f"{sd}/demo_{m}.rs", f"{out}/demo.rs")
notes = open(f"{sd}/notes.md").read() if os.path.exists(f"{sd}/notes.md") else ""
# the part of the notes about this mutation
parts = re.split(r"(?m)^#+ .*[Mm]utation ", notes)
sect = ""
for s in parts[1:]:
    if s.lstrip().startswith(m):
        sect = "## Mutation " + s
        break
if not sect:
    sect = notes
conf = open(f"{sd}/{m}.confirm").read().splitlines() if os.path.exists(f"{sd}/{m}.confirm") else []
cl = caught.split(",") if caught else []
meta = {
    "id": f"{p}-{dest}",
    "round": int(rnd),
    "breaks_property": p,
    "source": os.environ.get("SEED_SOURCE", "independent sub-agent given only the property text, the first added line of each earlier change to avoid, and its own scratch worktree of /repo"),
    "needs_to_manifest": sect[:1800],
    "confirmed_by_me": {"worktree": f"{wt} at /repo main", "commands": "tools/confirm_seed.sh", "result": conf, "note": os.environ.get("SEED_NOTE", "")},
    "caught_by": cl,
    "how": how,
    "run": f"tools/try_seed.sh seeded/{p}-{dest}/patch.diff " + " ".join(cl),
}
json.dump(meta, open(f"{out}/meta.json", "w"), indent=1)
print(out)
