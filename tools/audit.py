#!/usr/bin/env python3
"""DESIGN 2.3: syntactic audit that digest BYTES are not read by bc-envelope's control flow
except through Digest::{cmp,partial_cmp,eq,hash}. Prints JSON: {"new_uses":[...], "allowed":n}.
A new use does not fail the check (it may be a behaviour-preserving refactor); it is recorded in
the evidence as 'order dimension possibly under-explored at <file:line>'."""
import json, os, re, sys, pathlib
ROOT = pathlib.Path(os.environ.get('VERIF_REPO', '/repo')) / 'src'
PAT = re.compile(r'\.data\(\)|digest\(\)\.as_ref\(\)|digest_ref\(\)\.as_ref\(\)|\.hex\(\)|short_description|\[u8; ?32\]|to_vec\(\)|as_bytes\(\)|<\s*\[u8\]|\.0\b.*digest')
# (file, stripped line) pairs present on the pinned tree, each read and classified:
ALLOW = {
 ('extension/compress.rs', 'if digest != self.digest().as_ref() {'): 'equality only (AsRef<Digest>)',
 ('extension/compress.rs', 'if envelope.digest().as_ref() != digest {'): 'equality only (AsRef<Digest>)',
 ('extension/expressions/event.rs', 'format!("id: {}, content: {}", self.id.short_description(), self.content.to_envelope().format_flat())'): 'ARID text, not a digest',
 ('extension/expressions/response.rs', 'Ok((id, result)) => format!("id: {}, result: {}", id.short_description(), result.format_flat()),'): 'ARID text',
 ('extension/expressions/response.rs', 'format!("id: {} error: {}", id.short_description(), error.format_flat())'): 'ARID text',
 ('extension/expressions/request.rs', 'format!("id: {}, body: {}", self.id.short_description(), self.body.expression_envelope().format_flat())'): 'ARID text',
 ('extension/sskr.rs', 'let master_secret = SSKRSecret::new(content_key.data())?;'): 'key bytes, not a digest',
 ('extension/signature/signature_impl.rs', 'let digest = *self.subject().digest().data();'): 'signing input (opaque payload)',
 ('extension/signature/signature_impl.rs', '.sign_with_options(&signature_with_metadata.digest().as_ref(), options)'): 'signing input (opaque payload)',
 ('extension/signature/signature_impl.rs', 'private_key.sign_with_options(&digest as &dyn AsRef<[u8]>, options.clone()).unwrap()'): 'signing input (opaque payload)',
 ('extension/signature/signature_impl.rs', 'key.verify(signature, self.subject().digest().as_ref())'): 'verification input (opaque payload)',
 ('base/tree_format.rs', 'self.digest().short_description()'): 'hex text for display',
 ('base/digest.rs', 'image.borrow_mut().extend_from_slice(envelope.digest().data());'): 'structural_digest hash image (opaque payload)',
 ('base/format.rs', 'EnvelopeFormatItem::Item(hex::encode(self.data()))'): 'hex text for display',
 ('base/envelope.rs', 'let data = "Hello".as_bytes();'): 'unit test',
}
def strip(src):
    src = re.sub(r'/\*.*?\*/', '', src, flags=re.S)
    out = []
    for line in src.splitlines():
        i = line.find('//')
        if i >= 0 and line[:i].count('"') % 2 == 0: line = line[:i]
        out.append(line)
    return out
new, allowed = [], 0
for f in sorted(ROOT.rglob('*.rs')):
    rel = str(f.relative_to(ROOT))
    for n, line in enumerate(strip(f.read_text()), 1):
        if PAT.search(line):
            key = (rel, line.strip())
            if key in ALLOW: allowed += 1
            elif re.search(r'digest|Digest', line) or rel in ('base/envelope.rs', 'base/assertions.rs', 'base/cbor.rs', 'base/elide.rs'):
                new.append(f'src/{rel}:{n}: {line.strip()[:140]}')
print(json.dumps({'new_uses': new, 'allowed': allowed}))
