#!/bin/bash
# Regression over /verif/seeded: applies each seeded change to /repo, runs the quick checks that are recorded
# as catching it, undoes the change. Prints one line per seed. (Do not run other checks at the same time.)
cd /verif
for d in ${SEEDS:-seeded/*/}; do
  id=$(basename $d)
  checks=$(python3 -c "import json; print(' '.join(json.load(open('$d/meta.json'))['caught_by']))")
  res=""
  out=$(SYMORD_SKIP_KANI=1 ./tools/try_seed.sh $d/patch.diff $checks 2>&1)
  for c in $checks; do rc=$(echo "$out" | grep -E "^== $c exit=" | sed 's/.*exit=//'); res="$res $c=$rc"; done
  caught=no; echo "$res" | grep -q "=1" && caught=yes
  echo "$id caught=$caught$res"
done
