#!/bin/bash
# tools/confirm_seed.sh <Cxx> <A|B>   confirm a sub-agent's mutation in its scratch worktree /tmp/wt-<Cxx>:
#  demo passes without the change, fails with it; the crate's own suite passes with it. Writes /tmp/seed-<Cxx>/<A|B>.confirm
set -u
P="$1"; M="$2"; WT=${WT_PREFIX:-/tmp/wt}-$P; SD=${SEED_PREFIX:-/tmp/seed}-$P; OUT=$SD/$M.confirm
cd "$WT" || exit 2
git checkout -q -- . ; git clean -fdq tests src 2>/dev/null
git checkout -q --detach main 2>/dev/null
cp "$SD/demo_$M.rs" tests/zz_demo_$M.rs
r1=$(cargo test --offline --test zz_demo_$M 2>&1 | grep -E "^test result" | head -1)
git apply "$SD/$M.diff" || { echo "APPLY-FAILED" > "$OUT"; exit 1; }
r2=$(cargo test --offline --test zz_demo_$M 2>&1 | grep -E "^test result" | head -1)
rm -f tests/zz_demo_$M.rs
suite=$(cargo test --offline --no-fail-fast 2>&1 | grep -E "^test result|^test .* FAILED")
nfail=$(echo "$suite" | grep -c "FAILED")
{ echo "demo without change: $r1"; echo "demo with change:    $r2"; echo "suite with change: $(echo "$suite" | grep -c '^test result: ok') ok result lines, $nfail FAILED lines"; echo "$suite" | grep FAILED; } > "$OUT"
git checkout -q -- . ; git clean -fdq tests src 2>/dev/null
cat "$OUT"
