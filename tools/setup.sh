#!/bin/bash
# Builds the framework from files on disk only (offline).
set -euo pipefail
cd "$(dirname "$(readlink -f "$0")")/.."
export CARGO_NET_OFFLINE=true
./tools/mkshim.sh
mkdir -p evidence replays symord/target/tmp
( cd symord && cargo build --release )
( cd replay && cargo build --release )
if [ -d kani ]; then ( cd kani && ./prebuild.sh ) || true; fi
echo "setup done"
