#!/bin/bash
# tools/run_control.sh <diff>: apply a behaviour-preserving refactoring (controls/*.diff) to /repo, run every quick check (all must exit 0), undo
cd /verif
git -C /repo diff --quiet || { echo "/repo dirty"; exit 2; }
git -C /repo apply "$(readlink -f "$1")" || exit 2
EVSAVE=$(mktemp -d); cp -a evidence/. $EVSAVE/   # evidence must describe the unchanged tree: put it back afterwards
trap 'git -C /repo checkout -- .; cp -a $EVSAVE/. evidence/; rm -rf $EVSAVE' EXIT
for p in ${PROPS:-C01 C02 C03 C04 C05 C06 C07 C08 C09 C10 C12 C13 C14 C15 C16 C17 C18 C19}; do
  out=$(SYMORD_SKIP_KANI=1 ./check $p --tier quick 2>&1); rc=$?
  echo "$p exit=$rc"
done
