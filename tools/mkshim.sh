#!/bin/bash
# Regenerates /verif/symord/shim = registry source of bc-components (version pinned by ${VERIF_LOCK:-/repo/Cargo.lock})
# + the order-hook patch (tools/shim.patch). Nothing in /repo is touched.
set -euo pipefail
cd "$(dirname "$0")/.."
VER=$(awk '/^name = "bc-components"$/{getline; gsub(/version = |"/,""); print; exit}' ${VERIF_LOCK:-/repo/Cargo.lock})
SRC=$(ls -d "$HOME"/.cargo/registry/src/*/bc-components-"$VER" | head -1)
[ -d "$SRC" ] || { echo "bc-components $VER not in the cargo registry" >&2; exit 2; }
rm -rf symord/shim
mkdir -p symord/shim
cp -r "$SRC"/. symord/shim/
rm -f symord/shim/.cargo-ok symord/shim/.cargo_vcs_info.json
chmod -R u+w symord/shim
patch -s -p1 -d symord/shim < tools/shim.patch
echo "shim: bc-components $VER + order hook"
