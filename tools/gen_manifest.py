#!/usr/bin/env python3
"""Writes /verif/MANIFEST.json from the table below (kept here so the manifest stays consistent)."""
import json
BASELINE = "cd /repo && cargo nextest run --workspace --no-fail-fast --test-threads 8 --offline || cargo test --workspace --no-fail-fast --offline"
TECH = "SymOrd: symbolic execution of the compiled bc-envelope with the digest order and the scenario's choice variables symbolic; z3 decides every order query and a final coverage-certificate query (cvc5 cross-check in the thorough tier); counterexamples replayed natively on stock dependencies"
NOTE = "Trusted: z3 (QF_LIA order constraints), the 15-line Ord/PartialOrd shim of bc-components used only for exploration (every violation is reproduced on the stock crate before it is reported), the syntactic audit that digest bytes reach control flow only through cmp/eq/hash, real SHA-256 equality. Concrete, not solver-quantified: leaf payloads, keys, nonces (VERIF_SEED)."
CLAIMED = {
 "C07": ("For every subject case, multiset of <=4 (quick) / <=5 (thorough) assertions of 4/6 kinds, every insertion permutation and every digest order: byte-identical result, idempotent add, add/remove inverse, wrap/unwrap inverse, receivers untouched, digest equals the specification's; bounded model checking with a solver certificate that all orders and choices were covered. Collections part is concrete execution of dcbor's ordering.", "DESIGN.md 4 (C07)"),
}
NA = {
}
def main():
    props = [json.loads(l) for l in open('/verif/properties.jsonl')]
    checks = []
    for p in props:
        pid = p['id']
        if pid in CLAIMED:
            text, ref = CLAIMED[pid]
            checks.append({
                "property_id": pid,
                "quick_cmd": f"./check {pid} --tier quick",
                "thorough_cmd": f"./check {pid} --tier thorough",
                "evidence_file": f"/verif/evidence/{pid}.json",
                "replay_cmd_template": f"./check {pid} --replay {{path}}",
                "engine": "symord" if pid != "C17" else "symord+kani",
                "level_claimed": {"category": "model_checking", "text": text, "design_ref": ref},
                "level_note": NOTE,
                "technique": TECH if pid != "C17" else TECH + "; Kani/CBMC bounded model checking of the salt-length arithmetic kernel",
            })
    na = [{"property_id": p['id'], "reason": NA.get(p['id'], "check not built yet in this session (work in progress; see DESIGN.md section 4 for the plan)")} for p in props if p['id'] not in CLAIMED]
    m = {
        "version": 1,
        "setup_cmd": "./tools/setup.sh",
        "hooks": {"guard": "none", "enable": "no source hooks in /repo: the order oracle lives in a patched copy of the bc-components dependency generated under /verif/symord/shim by tools/mkshim.sh", "baseline_off_cmd": BASELINE, "source_commits": [], "add_only": True},
        "engines": [
            {"name": "symord", "path": "/verif/symord", "serves_properties": sorted(CLAIMED.keys()), "kind_free_text": "symbolic execution of natively compiled code with symbolic hash order (z3 -in, push/pop), fork by re-execution, coverage certificate"},
            {"name": "replay", "path": "/verif/replay", "serves_properties": sorted(CLAIMED.keys()), "kind_free_text": "same harness source built against stock bc-components: native replay of counterexamples and native validation of sampled paths"},
        ],
        "checks": checks,
        "not_applicable": na,
        "notes": "Exit codes: 0 held on everything explored; 1 VIOLATION reproduced natively; 2 inconclusive (build failure, non-reproducing counterexample, path budget exhausted). Genuine defects: known_findings.json.",
    }
    json.dump(m, open('/verif/MANIFEST.json', 'w'), indent=1)
main()
