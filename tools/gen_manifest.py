#!/usr/bin/env python3
"""Writes /verif/MANIFEST.json from the table below (kept here so the manifest stays consistent)."""
import json
BASELINE = "cd /repo && (cargo nextest run --workspace --no-fail-fast --tool-config-file pb:/w/lib/nextest.toml --profile pb --test-threads 8 --offline || cargo test --workspace --no-fail-fast --offline)"
TECH = "SymOrd: symbolic execution of the compiled bc-envelope with the digest order and the scenario's choice variables symbolic; z3 decides every order query and a final coverage-certificate query (cvc5 cross-check in the thorough tier); counterexamples replayed natively on stock dependencies"
NOTE = "Trusted: z3 (QF_LIA order constraints), the 15-line Ord/PartialOrd shim of bc-components used only for exploration (every violation is reproduced on the stock crate before it is reported), the syntactic audit that digest bytes reach control flow only through cmp/eq/hash, real SHA-256 equality. Concrete, not solver-quantified: leaf payloads, keys, nonces (VERIF_SEED)."
CLAIMED = {
 "C01": ("Every envelope shape within the bound x 8 construction routes x every digest order: digest() at every position equals the SHA-256 rule of the specification recomputed with sha2 in the harness; 41 leaf golden vectors and 8 known values (catalogue). Bounded model checking with a solver certificate of coverage.", "DESIGN.md 4 (C01)"),
 "C02": ("Every shape within the bound x every target subset x 2 modes x 3 actions x every digest order (+ two-pass obscuring, + whole-envelope forms): root digest and every surviving position's digest unchanged.", "DESIGN.md 4 (C02)"),
 "C03": ("Same space as C02: position-by-position against reference elision semantics written from the documentation; residue of hidden leaf markers in the serialization; unelide accepts exactly the digest-equal envelope.", "DESIGN.md 4 (C03)"),
 "C04": ("Every sequence of 2 operations out of 26 (3 out of 12 structural ones; thorough: 3 of all / 4 structural) from 13 start envelopes x every argument choice x every digest order: after each step the result is well-formed, canonical under the path condition, stored digests equal recomputed ones, bytes accepted by an independent grammar recogniser, receiver unchanged.", "DESIGN.md 4 (C04)"),
 "C05": ("Every shape within the bound x 0-2 obscured positions x every digest order: every public encode / decode route (CBOR bytes, tagged / untagged CBOR value, TryFrom<CBOR>, UR value and string) returns an identical envelope, same case and digest at every position, byte-identical re-encoding; also after every single operation; 48 leaf values (catalogue).", "DESIGN.md 4 (C05)"),
 "C06": ("Every single (thorough: double) structural mutation of the CBOR tree of every valid encoding within the bound x every digest order: decode is Err, or Ok with re-encoding equal to the input, and never Ok on input an independent grammar recogniser rejects; 19 top-level / byte-level cases. Byte-level mutation below the CBOR tree is outside.", "DESIGN.md 4 (C06)"),
 "C07": ("For every subject case, multiset of <=4 (quick) / <=5 (thorough) assertions of 4/6 kinds, every insertion permutation and every digest order: byte-identical result, idempotent add (also of obscured copies), add/remove inverse, wrap/unwrap inverse, receivers untouched, digest equals the specification's. Collections part is concrete execution of dcbor's ordering.", "DESIGN.md 4 (C07)"),
 "C08": ("Every shape within the bound x encrypt/decrypt forms x every digest order: identical round trip, digest kept, wrong key refused, second encryption refused (also after adding assertions); every (content A, declared digest B) mismatch constructible by a key holder is rejected; single-bit tampering at 16 positions (concrete).", "DESIGN.md 4 (C08)"),
 "C09": ("Signer subsets of 3 keys x metadata x assertion order x every key list and threshold x every digest order; any non-signature part obscured after signing; 5 schemes; 8 adversarial 'signed' objects x genuine signature absent / plain / with metadata.", "DESIGN.md 4 (C09)"),
 "C10": ("Every recipient list of length 1..3 over 4 key pairs (duplicates) x 3 forms x each listed and unlisted private key x every digest order (which hasRecipient assertion is tried first is the hash's choice); wrap-and-encrypt and seal/unseal with right / wrong keys over scheme pairs.", "DESIGN.md 4 (C10)"),
 "C12": ("Every shape within the bound x every target set of <=2 (3) digests incl. nested / root / multi-position / absent x every digest order: completeness, acceptance by a root-only verifier, minimal disclosure against harness-computed paths, soundness against other target sets, thinned proofs, other roots, enclosing envelopes.", "DESIGN.md 4 (C12)"),
 "C13": ("Every shape within the bound + 4 payload kinds x compress / uncompress forms and every chain of 3 operations x every digest order: identical round trip, same digest at every step, idempotence, compressed element as subject; mis-declared digest rejected; 6 corruptions (concrete).", "DESIGN.md 4 (C13)"),
 "C14": ("Every ordered pair (and triple on smaller shapes) of variants {original, decoded copy, unrelated, other leaves, every single / double obscuration under each action} x every digest order: equivalence iff digest equality, == iff identical, identical iff equivalent and same harness-computed pattern, reflexive / symmetric / transitive, preserved by encode/decode (4 decode routes over 22 unusual leaf values, catalogue).", "DESIGN.md 4 (C14)"),
 "C15": ("Every shape within the bound x both walk modes (sequence, level, edge, parent threading) x digests(limit) for every limit x lookup family with none / one / several matches incl. elided predicates and decorated assertions x every digest order; typed extraction catalogue through both the extract_* and the TryFrom<Envelope> route.", "DESIGN.md 4 (C15)"),
 "C16": ("~330 receiver envelopes (plain, obscured, decorated, junk / elided / duplicated objects under 14 well-known predicates, decoder-only shapes) x 60 operation groups covering every public entry point x argument choices x every digest order: any panic is a violation.", "DESIGN.md 4 (C16)"),
 "C17": ("SymOrd: shapes + envelopes of 100..5000 bytes x 6 salting operations x RNG pinned to the ends of its range x every digest order: content unchanged, exactly one salt assertion, length inside the documented range computed from the real serialized size; salted assertions. Kani/CBMC: the length arithmetic of the pinned dependency for every size in the stated windows and every RNG word.", "DESIGN.md 3, 4 (C17)"),
 "C18": ("Expression / Request / Response / Event over a catalogue of functions, parameters, values, notes and dates x expected-function checks x malformed variants x direct and through bytes x every digest order (parameters and metadata are assertions, so their order is the hash's).", "DESIGN.md 4 (C18)"),
 "C19": ("Attachment lists of 1..3 x filters x hosts x every digest order: exactly the added attachments with identical parts, filters exact, none / several reported; 8 malformed attachments; every set of <=3 types out of 8 against every type check.", "DESIGN.md 4 (C19)"),
}
NA = {
 "C11": "Outcome is decided by Shamir/GF(256) interpolation + HMAC + AEAD on concrete shares (sskr, bc-shamir): digest order plays no role, so under SymOrd the check would be plain enumeration of share subsets by concrete execution (another technique), and Kani cannot encode the code (DESIGN.md 1, 5). The only order-free residue (sskr_join must not panic on decorated share assertions) is exercised under C16.",
 "C20": "Quantifies over thread schedules. SymOrd is a sequential executor; Kani treats concurrency primitives as sequential and std::sync::{Once, Mutex} bottom out in futex syscalls; a hand-written SMT model of lock orders would check the model, not the code (DESIGN.md 5).",
}
def main():
    props = [json.loads(l) for l in open('/verif/properties.jsonl')]
    checks = []
    for p in props:
        pid = p['id']
        if pid in CLAIMED:
            text, ref = CLAIMED[pid]
            checks.append({
                "property_id": pid,
                "quick_cmd": f"./check {pid} --tier quick",
                "thorough_cmd": f"./check {pid} --tier thorough",
                "evidence_file": f"/verif/evidence/{pid}.json",
                "replay_cmd_template": f"./check {pid} --replay {{path}}",
                "engine": "symord" if pid != "C17" else "symord+kani",
                "level_claimed": {"category": "model_checking", "text": text, "design_ref": ref},
                "level_note": NOTE,
                "technique": TECH if pid != "C17" else TECH + "; Kani/CBMC bounded model checking of the salt-length arithmetic kernel",
            })
    na = [{"property_id": p['id'], "reason": NA.get(p['id'], "check not built yet in this session (work in progress; see DESIGN.md section 4 for the plan)")} for p in props if p['id'] not in CLAIMED]
    m = {
        "version": 1,
        "setup_cmd": "./tools/setup.sh",
        "hooks": {"guard": "none", "enable": "no source hooks in /repo: the order oracle lives in a patched copy of the bc-components dependency generated under /verif/symord/shim by tools/mkshim.sh", "baseline_off_cmd": BASELINE, "source_commits": [], "add_only": True},
        "engines": [
            {"name": "symord", "path": "/verif/symord", "serves_properties": sorted(CLAIMED.keys()), "kind_free_text": "symbolic execution of natively compiled code with symbolic hash order (z3 -in, push/pop), fork by re-execution, coverage certificate"},
            {"name": "kani", "path": "/verif/kani", "serves_properties": ["C17"], "kind_free_text": "Kani 0.68 / CBMC 6.11 bounded model checking of the salt-length arithmetic (bc-components Salt::new_for_size_using and bc-rand's Lemire range reduction) at the versions /repo's Cargo.lock pins"},
            {"name": "replay", "path": "/verif/replay", "serves_properties": sorted(CLAIMED.keys()), "kind_free_text": "same harness source built against stock bc-components: native replay of counterexamples and native validation of sampled paths"},
        ],
        "checks": checks,
        "not_applicable": na,
        "notes": "Exit codes: 0 held on everything explored; 1 VIOLATION reproduced natively; 2 inconclusive (build failure, non-reproducing counterexample, path budget exhausted). Genuine defects: known_findings.json.",
    }
    json.dump(m, open('/verif/MANIFEST.json', 'w'), indent=1)
main()
