#!/bin/bash
# runs every claimed check's quick command, reports exit code and wall time, validates evidence
cd /verif
for p in $(python3 -c "import json; print(' '.join(c['property_id'] for c in json.load(open('MANIFEST.json'))['checks']))"); do
  rm -f evidence/$p.json
  s=$(date +%s); out=$(./check $p --tier ${TIER:-quick} 2>&1); rc=$?; e=$(date +%s)
  v=$(python3-vt -c "
import json,jsonschema,sys
try:
  jsonschema.validate(json.load(open('evidence/$p.json')), json.load(open('/root/.vp/EVIDENCE.schema.json'))); print('evidence-ok')
except Exception as ex: print('EVIDENCE-BAD', str(ex)[:100])")
  echo "$p exit=$rc wall=$((e-s))s $v $(echo "$out" | grep -cE '^VIOLATION') violations $(echo "$out" | grep -cE '^KNOWN-FINDING') known"
  echo "$out" | grep -E "^VIOLATION|^INCONCLUSIVE" | head -3
done
