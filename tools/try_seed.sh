#!/bin/bash
# tools/try_seed.sh <patch.diff> <Cxx> [<Cyy> ...]  : apply a seeded mutation to /repo, run the quick checks, undo it
set -u
PATCH="$1"; shift
cd /verif
git -C /repo diff --quiet || { echo "/repo has uncommitted changes"; exit 2; }
git -C /repo apply "$(readlink -f "$PATCH")" || { echo "patch does not apply"; exit 2; }
EVSAVE=$(mktemp -d); cp -a evidence/. $EVSAVE/   # evidence must describe the unchanged tree: put it back afterwards
trap 'git -C /repo checkout -- . ; cp -a $EVSAVE/. evidence/; rm -rf $EVSAVE' EXIT
for p in "$@"; do
  out=$(./check "$p" --tier "${TIER:-quick}" 2>&1); rc=$?
  echo "== $p exit=$rc"; echo "$out" | grep -E "^VIOLATION|^KNOWN|^INCONCLUSIVE|^  scenario" | head -8
done
