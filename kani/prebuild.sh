#!/bin/bash
# warms the Kani build cache (compiles the dependency tree once)
cd "$(dirname "$0")" && cp ${VERIF_LOCK:-/repo/Cargo.lock} Cargo.lock && echo "// prebuild" > src/windows_generated.rs && timeout 900 cargo kani -Z stubbing --harness proofs::explicit_len --exact --output-format terse > target-kani-prebuild.log 2>&1; tail -2 target-kani-prebuild.log
