//! Kani proof harnesses: for every serialized size in a window and every RNG output,
//! Salt::new_for_size_using requests a salt whose length lies in the documented range
//! [max(8, ceil(size/20)), max(min+8, ceil(size/4))]; explicit lengths / ranges below 8 are refused.
#![allow(unexpected_cfgs)]

#[cfg(kani)]
mod proofs {
    use bc_components::Salt;
    use std::sync::atomic::{AtomicUsize, Ordering};

    static CALLS: AtomicUsize = AtomicUsize::new(0);
    static REQUESTED: AtomicUsize = AtomicUsize::new(usize::MAX);

    /// RNG returning arbitrary words; at most 3 draws (= at most 2 rejections in Lemire's loop)
    struct AnyRng;
    impl rand::RngCore for AnyRng {
        fn next_u32(&mut self) -> u32 { self.next_u64() as u32 }
        fn next_u64(&mut self) -> u64 {
            let c = CALLS.fetch_add(1, Ordering::Relaxed);
            kani::assume(c < 3);
            kani::any()
        }
        fn fill_bytes(&mut self, _dest: &mut [u8]) {}
        fn try_fill_bytes(&mut self, _dest: &mut [u8]) -> Result<(), rand::Error> { Ok(()) }
    }
    impl rand::CryptoRng for AnyRng {}
    impl bc_rand::RandomNumberGenerator for AnyRng {
        fn random_data(&mut self, size: usize) -> Vec<u8> { REQUESTED.store(size, Ordering::Relaxed); Vec::new() }
    }

    /// stands in for bc_rand::rng_random_data: records the requested length (the bytes themselves are irrelevant)
    fn record_len(_rng: &mut impl bc_rand::RandomNumberGenerator, size: usize) -> Vec<u8> {
        REQUESTED.store(size, Ordering::Relaxed);
        Vec::new()
    }
    fn no_format(_args: std::fmt::Arguments<'_>) -> String { String::new() }
    fn no_backtrace() -> std::backtrace::Backtrace { std::backtrace::Backtrace::disabled() }

    fn check_window(lo: usize, hi: usize) {
        let size: usize = kani::any();
        kani::assume(size >= lo && size < hi);
        let mut rng = AnyRng;
        let salt = Salt::new_for_size_using(size, &mut rng);
        core::mem::forget(salt); // drop glue is not what is being checked
        let n = REQUESTED.load(Ordering::Relaxed);
        let min = core::cmp::max(8, (size + 19) / 20);
        let max = core::cmp::max(min + 8, (size + 3) / 4);
        assert!(n != usize::MAX, "no salt requested");
        assert!(n >= 8, "salt shorter than 8");
        assert!(n >= min && n <= max, "salt length outside the documented range");
    }

    macro_rules! window {
        ($name:ident, $wit:ident, $lo:expr, $hi:expr) => {
            #[kani::proof]
            #[kani::unwind(5)]
            #[kani::stub(bc_rand::rng_random_data, record_len)]
            #[kani::stub(alloc::fmt::format, no_format)]
            #[kani::stub(std::backtrace::Backtrace::capture, no_backtrace)]
            fn $name() { check_window($lo, $hi); }
            /// vacuity witness: the same harness must be able to reach its end
            #[kani::proof]
            #[kani::unwind(5)]
            #[kani::stub(bc_rand::rng_random_data, record_len)]
            #[kani::stub(alloc::fmt::format, no_format)]
            #[kani::stub(std::backtrace::Backtrace::capture, no_backtrace)]
            fn $wit() { check_window($lo, $hi); kani::cover!(true, "end of harness reachable"); }
        };
    }
    // windows around the sizes where the rule changes regime
    window!(w_0, c_0, 0, 8);
    window!(w_156, c_156, 156, 166);
    window!(w_316, c_316, 316, 326);
    window!(w_996, c_996, 996, 1004);
    window!(w_99996, c_99996, 99996, 100001);
    include!("windows_generated.rs");

    /// explicit length / range requests below 8 are refused, at or above 8 honoured
    #[kani::proof]
    #[kani::unwind(5)]
    #[kani::stub(bc_rand::rng_random_data, record_len)]
    #[kani::stub(alloc::fmt::format, no_format)]
    #[kani::stub(std::backtrace::Backtrace::capture, no_backtrace)]
    fn explicit_len() {
        let n: usize = kani::any();
        kani::assume(n <= 4096);
        let mut rng = AnyRng;
        let r = Salt::new_with_len_using(n, &mut rng);
        if n < 8 { assert!(r.is_err(), "short salt accepted"); }
        else { assert!(r.is_ok()); assert!(REQUESTED.load(Ordering::Relaxed) == n, "other length than requested"); }
        core::mem::forget(r);
    }

    #[kani::proof]
    #[kani::unwind(5)]
    #[kani::stub(bc_rand::rng_random_data, record_len)]
    #[kani::stub(alloc::fmt::format, no_format)]
    #[kani::stub(std::backtrace::Backtrace::capture, no_backtrace)]
    fn explicit_range() {
        let lo: usize = kani::any();
        let width: usize = kani::any();
        kani::assume(lo <= 64 && width <= 16);
        let hi = lo + width;
        let mut rng = AnyRng;
        let r = Salt::new_in_range_using(&(lo..=hi), &mut rng);
        if lo < 8 { assert!(r.is_err(), "range starting below 8 accepted"); }
        else { assert!(r.is_ok()); let n = REQUESTED.load(Ordering::Relaxed); assert!(n >= lo && n <= hi, "length outside the requested range"); }
        core::mem::forget(r);
    }
}
