//! C12 Inclusion proofs are complete, sound and minimally revealing
//! C15 Traversal and queries agree with the envelope's structure
use super::{Prop, COMMON_ASSUMPTIONS};
use crate::engine::{op, Scenario};
use crate::refs::*;
use crate::rt::{self, choice, flag, R};
use crate::spec::{self, *};
use crate::{ensure, must};
use bc_envelope::prelude::*;
use bc_envelope::EnvelopeError;
use dcbor::prelude::*;
use std::cell::RefCell;
use std::collections::HashSet;

fn bytes(e: &Envelope) -> Vec<u8> { e.tagged_cbor().to_cbor_data() }

// ------------------------------------------------------------------------------------ C12

/// pick <= kmax indices out of n, ascending, symbolically
fn pick_upto(n: usize, kmax: usize) -> R<Vec<usize>> {
    let k = choice(kmax + 1);
    let mut out = vec![];
    let mut lo = 0;
    for _ in 0..k { rt::assume(lo < n)?; let i = lo + choice(n - lo); out.push(i); lo = i + 1; }
    Ok(out)
}

/// digests of strict ancestors of every position whose digest is in `t`
fn ancestors_of_targets(ps: &[Pos], t: &HashSet<D>) -> HashSet<D> {
    let mut a = HashSet::new();
    for p in ps { if t.contains(&p.d) { for k in 0..p.path.len() { a.insert(at(ps, &p.path[..k]).unwrap().d); } } }
    a
}
fn occurs_all(e: &Envelope, t: &HashSet<D>) -> bool { let have: HashSet<D> = positions(e).into_iter().map(|p| p.d).collect(); t.iter().all(|d| have.contains(d)) }

fn c12_proofs() -> R {
    let cat = if rt::thorough() { spec::catalogue(9, false, false, true) } else { spec::catalogue(6, false, false, true) };
    let s = &cat[choice(cat.len())];
    let e = build(s);
    let ps = positions(&e);
    let ds = distinct_digests(&e);
    let idx = pick_upto(ds.len(), if rt::thorough() { 3 } else { 2 })?;
    let mut t: HashSet<D> = idx.iter().map(|i| ds[*i]).collect();
    let absent = flag();
    if absent { t.insert(sha(b"absent digest")); }
    rt::note(format!("{} targets {:?}{}", s.show(), idx, if absent { " + absent" } else { "" }));
    let tset = to_set(&t.iter().cloned().collect::<Vec<_>>());
    op("proof_contains_set");
    let proof = e.proof_contains_set(&tset);
    let all_present = !absent;
    ensure!(proof.is_some() == all_present, "proof produced iff every target occurs: violated", "targets {:?} absent={} proof={}", idx, absent, proof.is_some());
    if idx.len() == 1 && !absent {
        let single = e.proof_contains_target(&Digest::from_data(ds[idx[0]]));
        ensure!(single.as_ref().map(bytes) == proof.as_ref().map(bytes), "proof_contains_target differs from proof_contains_set", "");
    }
    let root_only = e.elide();
    let Some(p) = proof else {
        // no proof: nothing a verifier could accept for these targets is derivable from e by eliding
        ensure!(!root_only.confirm_contains_set(&tset, &e), "verifier accepted the full envelope for an absent target", "");
        return Ok(());
    };
    ensure!(dg(&p) == dg(&e), "proof has another root digest", "");
    op("confirm_contains_set");
    ensure!(root_only.confirm_contains_set(&tset, &p), "valid proof rejected by a verifier holding only the root digest", "targets {:?}", idx);
    ensure!(e.confirm_contains_set(&tset, &p), "valid proof rejected by the envelope itself", "");
    if idx.len() == 1 { ensure!(root_only.confirm_contains_target(&Digest::from_data(ds[idx[0]]), &p), "confirm_contains_target rejected a valid proof", ""); }
    // minimal disclosure
    let anc = ancestors_of_targets(&ps, &t);
    let pp = positions(&p);
    for q in &pp {
        if q.kind == Kind::Elided { continue; }
        // (a target that encloses another target lies on the path to it and stays revealed)
        ensure!(anc.contains(&q.d), "proof reveals an element that is not on a path from the root to a target", "at {:?} ({:?}) of proof for targets {:?} of {}", q.path, q.kind, idx, s.show());
    }
    for d in &t {
        ensure!(pp.iter().any(|q| q.d == *d), "target does not occur in the proof", "");
        if !anc.contains(d) { ensure!(pp.iter().all(|q| q.d != *d || q.kind == Kind::Elided), "target that encloses no other target is not elided in the proof", ""); }
    }
    if let Err(m) = well_formed(&p) { return rt::viol("proof envelope not canonical", m); }
    // soundness against other verifiers / other target sets / thinned proofs
    match choice(5) {
        0 => {
            let idx2 = pick_upto(ds.len(), if rt::thorough() { 2 } else { 1 })?;
            let t2: HashSet<D> = idx2.iter().map(|i| ds[*i]).collect();
            let t2set = to_set(&t2.iter().cloned().collect::<Vec<_>>());
            let want = occurs_all(&p, &t2);
            ensure!(root_only.confirm_contains_set(&t2set, &p) == want, "verifier's verdict differs from (root digest equal and all targets occur in the proof)", "proof for {:?} checked for {:?}: expected {}", idx, idx2, want);
        }
        1 => {
            // elide one more element of the proof
            let i = choice(pp.len().min(8));
            let thin = p.elide_removing_target(&pp[i].env);
            let want = occurs_all(&thin, &t);
            ensure!(root_only.confirm_contains_set(&tset, &thin) == want, "verifier's verdict on a thinned proof is wrong", "elided {:?}: expected {}", pp[i].path, want);
        }
        2 => {
            // verifiers with another root digest never accept
            for v in [build(&n(l(900), vec![a(l(901), l(902))])), e.wrap_envelope(), e.subject().elide(), e.add_assertion("extra", "assertion")] {
                if dg(&v) != dg(&e) {
                    ensure!(!v.confirm_contains_set(&tset, &p), "verifier accepted a proof whose root digest differs from its own", "");
                    // the single-target form, also with the verifier's own root as the target
                    ensure!(!v.confirm_contains_target(&Digest::from_data(dg(&v)), &p), "verifier accepted a proof whose root digest differs from its own", "single-target form, target = the verifier's root");
                    for d in t.iter().take(1) { ensure!(!v.confirm_contains_target(&Digest::from_data(*d), &p), "verifier accepted a proof whose root digest differs from its own", "single-target form"); }
                }
            }
            ensure!(root_only.confirm_contains_target(&Digest::from_data(dg(&e)), &p), "single-target form rejects the root as target of a valid proof", "");
            ensure!(!root_only.confirm_contains_target(&Digest::from_data(sha(b"absent digest")), &p), "single-target form accepted an absent target", "");
        }
        3 => {
            // a proof made for an enclosing envelope, presented to the verifier of the inner one (and vice versa)
            let extra = build(&a(l(910), l(911)));
            let outer = must!(e.wrap_envelope().add_assertion_envelope(extra.clone()), "add refused");
            let mut t3 = t.clone(); t3.insert(dg(&e)); t3.insert(dg(&extra));
            let t3set = to_set(&t3.iter().cloned().collect::<Vec<_>>());
            let po = crate::must_some!(outer.proof_contains_set(&t3set), "no proof for present targets");
            ensure!(outer.elide().confirm_contains_set(&t3set, &po), "valid proof rejected", "outer");
            for tt in [&t3set, &to_set(&[dg(&extra)]), &tset] {
                ensure!(!root_only.confirm_contains_set(tt, &po), "verifier accepted a proof whose root digest differs from its own", "proof made for the enclosing envelope");
            }
            ensure!(!outer.elide().confirm_contains_set(&to_set(&[dg(&extra)]), &p) , "verifier accepted a proof whose root digest differs from its own", "inner proof for outer verifier");
        }
        _ => {
            // the fully elided envelope proves nothing but the root
            let nothing = e.elide();
            let want = t.iter().all(|d| *d == dg(&e));
            ensure!(root_only.confirm_contains_set(&tset, &nothing) == want, "verifier accepted a proof in which a target does not occur", "");
        }
    }
    Ok(())
}

// ------------------------------------------------------------------------------------ C15

#[derive(Debug, Clone, PartialEq)]
struct Visit { d: D, level: usize, edge: EdgeType, parent: Option<usize> }

fn ref_structure(e: &Envelope) -> Vec<Visit> {
    fn rec(e: &Envelope, level: usize, edge: EdgeType, parent: Option<usize>, out: &mut Vec<Visit>) {
        let me = out.len();
        out.push(Visit { d: dg(e), level, edge, parent });
        for (ed, c) in children(e) { rec(&c, level + 1, ed, Some(me), out); }
    }
    let mut out = vec![]; rec(e, 0, EdgeType::None, None, &mut out); out
}
/// tree view: nodes are not visited; a node's subject stands at the node's level, its assertions one
/// deeper (children of the subject); contents of wrapped / assertion elements one deeper
fn ref_tree(e: &Envelope) -> Vec<Visit> {
    fn rec(e: &Envelope, level: usize, parent: Option<usize>, out: &mut Vec<Visit>) -> Option<usize> {
        let mut parent = parent;
        let mut sl = level;
        if kind(e) != Kind::Node { let me = out.len(); out.push(Visit { d: dg(e), level, edge: EdgeType::None, parent }); parent = Some(me); sl = level + 1; }
        match kind(e) {
            Kind::Node => {
                let ch = children(e);
                let ap = rec(&ch[0].1, sl, parent, out);
                for (_, a) in &ch[1..] { rec(a, sl + 1, ap, out); }
            }
            Kind::Wrapped | Kind::Assertion => { for (_, c) in children(e) { rec(&c, sl, parent, out); } }
            _ => {}
        }
        parent
    }
    let mut out = vec![]; rec(e, 0, None, &mut out); out
}

fn observed(e: &Envelope, hide: bool) -> Vec<Visit> {
    let seen: RefCell<Vec<Visit>> = RefCell::new(vec![]);
    let visitor = |x: Envelope, level: usize, edge: EdgeType, parent: Option<usize>| -> Option<usize> {
        let mut s = seen.borrow_mut();
        s.push(Visit { d: dg(&x), level, edge, parent });
        Some(s.len() - 1)
    };
    e.walk(hide, &visitor);
    seen.into_inner()
}

fn c15_walk() -> R {
    let base = if rt::thorough() { spec::catalogue(10, true, false, true) } else { spec::catalogue(8, true, false, true) };
    let obs = spec::catalogue(5, false, true, false);
    let i = choice(base.len() + obs.len());
    let s = if i < base.len() { &base[i] } else { &obs[i - base.len()] };
    rt::note(s.show());
    let e = build(s);
    let ps = positions(&e);
    op("walk(structure)");
    let got = observed(&e, false);
    let want = ref_structure(&e);
    ensure!(got.len() == want.len(), "structure walk visits another number of elements", "{} vs {}", got.len(), want.len());
    for (g, w) in got.iter().zip(want.iter()) { ensure!(g == w, "structure walk differs from the structure", "got {:?} level {} parent {:?}, expected {:?} level {} parent {:?}", g.edge, g.level, g.parent, w.edge, w.level, w.parent); }
    op("walk(tree)");
    let got = observed(&e, true);
    let want = ref_tree(&e);
    ensure!(got.len() == want.len(), "tree walk visits another number of elements", "{} vs {}", got.len(), want.len());
    for (g, w) in got.iter().zip(want.iter()) { ensure!(g == w, "tree walk differs from the structure", "got level {} parent {:?}, expected level {} parent {:?}", g.level, g.parent, w.level, w.parent); }
    ensure!(got.len() == ps.iter().filter(|p| p.kind != Kind::Node).count(), "tree walk does not visit every non-node element exactly once", "");
    op("elements_count");
    ensure!(e.elements_count() == ps.len(), "elements_count differs from the number of elements", "{} vs {}", e.elements_count(), ps.len());
    op("digests(level)");
    let depth = ps.iter().map(|p| p.level).max().unwrap();
    for limit in 0..=depth + 2 {
        let want: HashSet<D> = ps.iter().filter(|p| p.level < limit).flat_map(|p| [p.d, dg(&p.env.subject())]).collect();
        let got: HashSet<D> = e.digests(limit).iter().map(|d| *d.data()).collect();
        ensure!(got == want, "digests(level) differs from the elements down to that level", "limit {}: {} vs {}", limit, got.len(), want.len());
    }
    let all: HashSet<D> = ps.iter().map(|p| p.d).collect();
    ensure!(e.deep_digests().iter().map(|d| *d.data()).collect::<HashSet<D>>() == all, "deep_digests differs from all element digests", "");
    ensure!(e.shallow_digests() == e.digests(2), "shallow_digests differs from digests(2)", "");
    op("subject/assertions");
    if kind(&e) == Kind::Node {
        let ch = children(&e);
        ensure!(bytes(&e.subject()) == bytes(&ch[0].1), "subject() is not the node's subject", "");
        ensure!(e.assertions().len() == ch.len() - 1 && e.has_assertions(), "assertions() differs from the node's assertions", "");
        for (x, y) in e.assertions().iter().zip(ch[1..].iter()) { ensure!(bytes(x) == bytes(&y.1), "assertions() differs from the node's assertions", ""); }
    } else {
        ensure!(bytes(&e.subject()) == bytes(&e) && e.assertions().is_empty() && !e.has_assertions(), "subject()/assertions() of a non-node wrong", "");
    }
    // case predicates agree with case()
    ensure!(e.is_node() == (kind(&e) == Kind::Node) && e.is_leaf() == (kind(&e) == Kind::Leaf) && e.is_wrapped() == (kind(&e) == Kind::Wrapped) && e.is_assertion() == (kind(&e) == Kind::Assertion)
        && e.is_elided() == (kind(&e) == Kind::Elided) && e.is_encrypted() == (kind(&e) == Kind::Encrypted) && e.is_compressed() == (kind(&e) == Kind::Compressed) && e.is_known_value() == (kind(&e) == Kind::Known), "case predicates disagree with case()", "");
    ensure!(e.is_obscured() == is_obscured_kind(kind(&e)), "is_obscured disagrees with case()", "");
    ensure!(e.is_subject_obscured() == is_obscured_kind(kind(&innermost_subject(&e))), "is_subject_obscured disagrees with the structure", "");
    ensure!(e.is_subject_assertion() == (kind(&innermost_subject(&e)) == Kind::Assertion), "is_subject_assertion disagrees with the structure", "");
    Ok(())
}
fn innermost_subject(e: &Envelope) -> Envelope { let mut x = e.clone(); while kind(&x) == Kind::Node { x = children(&x)[0].1.clone(); } x }

/// the predicate lookup family on nodes with repeated / absent / elided predicates and obscured assertions
fn c15_lookup() -> R {
    // assertions drawn from a small alphabet of predicates so that none / one / several matches occur
    let nas = 1 + choice(3);
    let mut specs = vec![];
    let mut preds = vec![]; // predicate id per assertion, None when the assertion element is obscured as a whole
    for i in 0..nas {
        let p = choice(2) as u32;       // predicate leaf 50 or 51
        let o = 60 + i as u32;          // distinct objects
        let form = choice(8);
        let base = a(l(50 + p), l(o));
        let (sp, visible_pred) = match form {
            0 => (base, true),
            1 => (a(el(l(50 + p)), l(o)), true),                       // elided predicate: still matches by digest
            2 => (a(l(50 + p), el(l(o))), true),                       // elided object
            3 => (n(base, vec![a(l(70 + i as u32), l(80 + i as u32))]), true), // decorated assertion
            7 => (a(l(50 + p), n(l(o), vec![a(l(70 + i as u32), l(80 + i as u32))])), true), // the object carries assertions of its own
            6 => (n(n(base, vec![a(l(70 + i as u32), l(80 + i as u32))]), vec![a(l(90 + i as u32), l(95 + i as u32))]), false), // assertion under two node levels (decoder / uncompress_subject shape): subject() is not an assertion
            4 => (el(base), false),                                    // whole assertion elided: cannot match
            _ => (co(base), false),
        };
        specs.push(sp);
        preds.push(if visible_pred { Some(p) } else { None });
    }
    let s = n(l(1), specs.clone());
    let e = build(&s);
    rt::note(s.show());
    let q = choice(3) as u32; // 0,1: predicates 50/51; 2: absent predicate 52
    let query_clear = build(&l(50 + q));
    let query = if flag() { query_clear.elide() } else { query_clear.clone() };
    // reference: assertion elements whose (innermost) assertion has that predicate digest
    let want: Vec<D> = (0..nas).filter(|i| preds[*i] == Some(q)).map(|i| spec_digest(&specs[i])).collect();
    op("assertions_with_predicate");
    let got = e.assertions_with_predicate(query.clone());
    let gd: HashSet<D> = got.iter().map(dg).collect();
    ensure!(got.len() == want.len() && want.iter().all(|d| gd.contains(d)), "assertions_with_predicate does not return exactly the matching assertions", "query {} got {} want {}", 50 + q, got.len(), want.len());
    // returned in the envelope's assertion order
    for w in got.windows(2) { ensure!(rt::before(&dg(&w[0]), &dg(&w[1])), "matching assertions not in the envelope's order", ""); }
    op("assertion_with_predicate");
    let r = e.assertion_with_predicate(query.clone());
    match want.len() {
        0 => ensure!(matches!(r.as_ref().err().and_then(|x| x.downcast_ref::<EnvelopeError>()), Some(EnvelopeError::NonexistentPredicate)), "no match must be reported as NonexistentPredicate", "{:?}", r.as_ref().map(dg)),
        1 => ensure!(r.as_ref().map(dg).ok() == Some(want[0]), "single match not returned", ""),
        _ => ensure!(matches!(r.as_ref().err().and_then(|x| x.downcast_ref::<EnvelopeError>()), Some(EnvelopeError::AmbiguousPredicate)), "several matches must be reported as AmbiguousPredicate", ""),
    }
    op("optional_assertion_with_predicate");
    let r = e.optional_assertion_with_predicate(query.clone());
    match want.len() {
        0 => ensure!(matches!(r, Ok(None)), "no match must be Ok(None)", ""),
        1 => ensure!(matches!(&r, Ok(Some(x)) if dg(x) == want[0]), "single match not returned", ""),
        _ => ensure!(r.is_err(), "several matches must be an error", ""),
    }
    // objects: the object of the matching (innermost) assertion
    let want_obj: Vec<D> = (0..nas).filter(|i| preds[*i] == Some(q)).map(|i| {
        let inner = match &specs[i] { Spec::Node(sub, _) => (**sub).clone(), x => x.clone() };
        match inner { Spec::Assert(_, o) => spec_digest(&o), _ => unreachable!() }
    }).collect();
    op("objects_for_predicate");
    let objs = e.objects_for_predicate(query.clone());
    let od: HashSet<D> = objs.iter().map(dg).collect();
    ensure!(objs.len() == want_obj.len() && want_obj.iter().all(|d| od.contains(d)), "objects_for_predicate does not return exactly the matching objects", "{} vs {}", objs.len(), want_obj.len());
    op("object_for_predicate");
    let r = e.object_for_predicate(query.clone());
    match want.len() {
        0 => ensure!(matches!(r.as_ref().err().and_then(|x| x.downcast_ref::<EnvelopeError>()), Some(EnvelopeError::NonexistentPredicate)), "no match must be reported as NonexistentPredicate", ""),
        1 => ensure!(r.as_ref().map(dg).ok() == Some(want_obj[0]), "object of the single match not returned", ""),
        _ => ensure!(matches!(r.as_ref().err().and_then(|x| x.downcast_ref::<EnvelopeError>()), Some(EnvelopeError::AmbiguousPredicate)), "several matches must be reported as AmbiguousPredicate", ""),
    }
    op("optional_object_for_predicate");
    let r = e.optional_object_for_predicate(query.clone());
    match want.len() {
        0 => ensure!(matches!(r, Ok(None)), "no match must be Ok(None)", ""),
        1 => ensure!(matches!(&r, Ok(Some(x)) if dg(x) == want_obj[0]), "object of the single match not returned", ""),
        _ => ensure!(r.is_err(), "several matches must be an error", ""),
    }
    op("extract_object_for_predicate");
    let r = e.extract_object_for_predicate::<String>(query.clone());
    if want.len() == 1 {
        let i = (0..nas).find(|i| preds[*i] == Some(q)).unwrap();
        let obj_elided = matches!(&specs[i], Spec::Assert(_, o) if o.is_obscured());
        let decorated = matches!(&specs[i], Spec::Node(..));
        if obj_elided { ensure!(r.is_err(), "typed extraction of an elided object returned a value", ""); }
        else if let Ok(x) = &r { ensure!(*x == leaf_text(60 + i as u32), "typed extraction returned another value", "{:?}", x); }
        // (an error is tolerated only for an assertion that carries assertions: extract_object_for_predicate does not look through the node)
        else { ensure!(decorated, "typed extraction of a present clear-text object failed", ""); }
        let wrong = e.extract_object_for_predicate::<u64>(query.clone());
        ensure!(wrong.is_err(), "typed extraction as another type returned a value", "");
    } else { ensure!(r.is_err(), "typed extraction without a single match returned a value", ""); }
    op("try_object_for_predicate / try_optional_object_for_predicate / try_objects_for_predicate");
    {
        let r = e.try_object_for_predicate::<String>(query.clone());
        let x = e.extract_object_for_predicate::<String>(query.clone());
        if want.len() == 1 {
            // try_* converts the object envelope itself: only a bare leaf converts; a node or an obscured element is an error, never its subject's value
            let i = (0..nas).find(|i| preds[*i] == Some(q)).unwrap();
            let inner = match &specs[i] { Spec::Node(sub, _) => (**sub).clone(), y => y.clone() };
            if let Spec::Assert(_, ob) = &inner { if !matches!(**ob, Spec::Leaf(_)) { ensure!(r.is_err(), "try_object_for_predicate returned a value for an object that is not a bare leaf", "{}", ob.show()); ensure!(e.try_objects_for_predicate::<String>(query.clone()).is_err(), "try_objects_for_predicate returned values for an object that is not a bare leaf", ""); } }
        }
        if let (Ok(a1), Ok(a2)) = (&r, &x) { ensure!(a1 == a2, "try_object_for_predicate and extract_object_for_predicate return different values", ""); }
        if want.len() != 1 { ensure!(r.is_err(), "try_object_for_predicate without a single match returned a value", ""); }
        let ro = e.try_optional_object_for_predicate::<String>(query.clone());
        if want.is_empty() { ensure!(matches!(ro, Ok(None)), "try_optional_object_for_predicate without a match must be Ok(None)", ""); }
        if want.len() > 1 { ensure!(ro.is_err(), "try_optional_object_for_predicate with several matches must be an error", ""); }
        let rs = e.try_objects_for_predicate::<String>(query.clone());
        if let Ok(v) = &rs { ensure!(v.len() == want.len(), "try_objects_for_predicate returns another number of objects", "{} vs {}", v.len(), want.len()); }
        let ws = e.try_objects_for_predicate::<u64>(query.clone());
        if !want.is_empty() { ensure!(ws.is_err(), "try_objects_for_predicate as another type returned values", ""); }
    }
    op("extract_objects_for_predicate / extract_optional_object_for_predicate / with_default");
    let all_clear = (0..nas).filter(|i| preds[*i] == Some(q)).all(|i| !matches!(&specs[i], Spec::Assert(_, o) if o.is_obscured()));
    let r = e.extract_objects_for_predicate::<String>(query.clone());
    if all_clear {
        let mut got = must!(r, "extract_objects_for_predicate failed on clear text objects"); got.sort();
        let mut w: Vec<String> = (0..nas).filter(|i| preds[*i] == Some(q)).map(|i| leaf_text(60 + i as u32)).collect(); w.sort();
        ensure!(got == w, "extract_objects_for_predicate returned other values", "");
    } else { ensure!(r.is_err(), "typed extraction of an elided object returned a value", ""); }
    let r = e.extract_optional_object_for_predicate::<String>(query.clone());
    if want.is_empty() { ensure!(matches!(r, Ok(None)), "optional extraction without a match must be Ok(None)", ""); }
    let rd = e.extract_object_for_predicate_with_default::<String>(query.clone(), "dflt".to_string());
    if want.is_empty() { ensure!(rd.as_ref().ok() == Some(&"dflt".to_string()), "default not returned when there is no match", ""); }
    if want.len() > 1 { ensure!(r.is_err() && rd.is_err(), "optional / defaulted extraction with several matches returned a value", ""); }
    if want.len() == 1 {
        // a present object is returned as stored or reported as an error: never 'absent', never the caller's default
        let i = (0..nas).find(|i| preds[*i] == Some(q)).unwrap();
        let obj_elided = matches!(&specs[i], Spec::Assert(_, o) if o.is_obscured());
        let decorated = matches!(&specs[i], Spec::Node(..));
        if obj_elided {
            ensure!(r.is_err(), "optional extraction of a present but obscured object did not report an error", "{:?}", r.as_ref().ok());
            ensure!(rd.is_err(), "defaulted extraction of a present but obscured object did not report an error", "{:?}", rd.as_ref().ok());
        } else if !decorated {
            ensure!(r.as_ref().ok() == Some(&Some(leaf_text(60 + i as u32))), "optional extraction did not return the stored value", "{:?}", r.as_ref().ok());
            ensure!(rd.as_ref().ok() == Some(&leaf_text(60 + i as u32)), "defaulted extraction did not return the stored value", "{:?}", rd.as_ref().ok());
        } else {
            if let Ok(x) = &r { ensure!(*x == Some(leaf_text(60 + i as u32)), "optional extraction returned another value", "{:?}", x); }
            if let Ok(x) = &rd { ensure!(*x == leaf_text(60 + i as u32), "defaulted extraction returned another value", "{:?}", x); }
        }
        ensure!(e.extract_optional_object_for_predicate::<u64>(query.clone()).is_err(), "optional extraction as another type did not report an error", "");
        ensure!(e.extract_object_for_predicate_with_default::<u64>(query.clone(), 5).is_err(), "defaulted extraction as another type did not report an error", "");
    }
    Ok(())
}

/// typed extraction: the stored value or an error, never another value
fn c15_extract() -> R {
    let vals: Vec<(&str, CBOR)> = vec![
        ("u8 5", 5u8.into()), ("u16 300", 300u16.into()), ("u64 max", u64::MAX.into()), ("i -1", (-1i8).into()), ("i64 min", i64::MIN.into()),
        ("f 1.5", 1.5f64.into()), ("f 2.0", 2.0f64.into()), ("text", "hello".into()), ("empty text", "".into()), ("bytes", CBOR::to_byte_string([1u8, 2])),
        ("true", true.into()), ("false", false.into()), ("date", dcbor::Date::from_timestamp(100.0).into()), ("tagged", CBOR::to_tagged_value(100u64, 1u8)), ("array", vec![1u8].into()),
        ("tagged bytes", CBOR::to_tagged_value(40012u64, CBOR::to_byte_string([7u8; 32]))), ("tagged text", CBOR::to_tagged_value(32u64, "https://example.com")),
        ("tagged float", CBOR::to_tagged_value(100u64, 1.5f64)), ("tagged bool", CBOR::to_tagged_value(100u64, true)), ("doubly tagged", CBOR::to_tagged_value(100u64, CBOR::to_tagged_value(1u64, 5u8))),
    ];
    let (name, v) = &vals[choice(vals.len())];
    let leaf = Envelope::new(v.clone());
    let e = match choice(3) { 0 => leaf.clone(), 1 => leaf.add_assertion("p", "o"), _ => Envelope::new("s").add_assertion("k", leaf.clone()) };
    let holder = choice(2);
    let ty = choice(12);
    rt::note(format!("{} as type {}", name, ty));
    let src_is_subject = !matches!(kind(&e.subject()), Kind::Leaf) || dg(&e.subject()) == dg(&leaf);
    rt::assume(src_is_subject)?;
    let from_obj = dg(&e.subject()) != dg(&leaf);
    macro_rules! ext { ($t:ty) => {{
        op(concat!("extract::<", stringify!($t), ">"));
        // holder 0: the extract_* route (TryFrom<CBOR>); holder 1: the TryFrom<Envelope> route (try_as / try_object_for_predicate / T::try_from)
        let r: anyhow::Result<$t> = match (holder, from_obj) {
            (0, true) => e.extract_object_for_predicate::<$t>("k"), (0, false) => e.extract_subject::<$t>(),
            (_, true) => e.try_object_for_predicate::<$t>("k"), (_, false) => e.subject().try_as::<$t>(),
        };
        if holder == 1 {
            // the two routes agree on success and on the value
            let other: anyhow::Result<$t> = if from_obj { e.extract_object_for_predicate::<$t>("k") } else { e.extract_subject::<$t>() };
            let (a, b) = (r.as_ref().ok().map(|x| CBOR::from(x.clone()).to_cbor_data()), other.ok().map(|x| CBOR::from(x).to_cbor_data()));
            ensure!(a == b, "typed extraction through TryFrom<Envelope> disagrees with extract_*", "{} as {}: {:?} vs {:?}", name, stringify!($t), a.map(hex::encode), b.map(hex::encode));
            let direct: anyhow::Result<$t> = <$t>::try_from(if from_obj { must!(e.object_for_predicate("k"), "object lookup failed") } else { e.subject() });
            ensure!(direct.ok().map(|x| CBOR::from(x).to_cbor_data()) == r.as_ref().ok().map(|x| CBOR::from(x.clone()).to_cbor_data()), "T::try_from(envelope) disagrees with try_as", "{} as {}", name, stringify!($t));
        }
        r.ok().map(|x| CBOR::from(x).to_cbor_data())
    }}; }
    let got: Option<Vec<u8>> = match ty {
        0 => ext!(u8), 1 => ext!(u16), 2 => ext!(u32), 3 => ext!(u64), 4 => ext!(i8), 5 => ext!(i32), 6 => ext!(i64),
        7 => ext!(f64), 8 => ext!(String), 9 => ext!(bool), 10 => ext!(dcbor::ByteString), _ => ext!(dcbor::Date),
    };
    if let Some(b) = got {
        let stored = v.to_cbor_data();
        // role key: a negative integer read back as an unsigned type is dcbor's wrap-around (known finding)
        let site = if stored[0] >> 5 == 0 && ty == 7 { "typed extraction returned a value other than the stored one [large unsigned integer as f64]" } else if stored[0] >> 5 == 1 && ty <= 3 { "typed extraction returned a value other than the stored one [negative integer as unsigned type]" } else { "typed extraction returned a value other than the stored one" };
        ensure!(b == stored, site, "{} as type {}: got {} stored {}", name, ty, hex::encode(&b), hex::encode(&stored));
    }
    // the natural type always succeeds
    let natural: Option<bool> = match *name {
        "u8 5" => Some(e_extract_ok::<u8>(&e, from_obj)), "u16 300" => Some(e_extract_ok::<u16>(&e, from_obj)), "u64 max" => Some(e_extract_ok::<u64>(&e, from_obj)),
        "i -1" => Some(e_extract_ok::<i8>(&e, from_obj)), "i64 min" => Some(e_extract_ok::<i64>(&e, from_obj)), "f 1.5" => Some(e_extract_ok::<f64>(&e, from_obj)),
        "text" | "empty text" => Some(e_extract_ok::<String>(&e, from_obj)), "bytes" => Some(e_extract_ok::<dcbor::ByteString>(&e, from_obj)),
        "true" | "false" => Some(e_extract_ok::<bool>(&e, from_obj)), "date" => Some(e_extract_ok::<dcbor::Date>(&e, from_obj)), _ => None,
    };
    if let Some(ok) = natural { ensure!(ok, "typed extraction of the stored type failed", "{}", name); }
    // non-leaf subjects
    let w = leaf.wrap_envelope();
    ensure!(w.extract_subject::<String>().is_err() || kind(&w) != Kind::Wrapped, "extraction from a wrapped envelope returned a leaf value", "");
    let inner: Envelope = must!(w.extract_subject::<Envelope>(), "extract_subject::<Envelope> on a wrapped envelope failed");
    ensure!(bytes(&inner) == bytes(&leaf), "extract_subject::<Envelope> returned another envelope", "");
    let kv = Envelope::new(KnownValue::new(77));
    ensure!(must!(kv.extract_subject::<KnownValue>(), "extract known value failed").value() == 77, "extract_subject::<KnownValue> returned another value", "");
    ensure!(kv.extract_subject::<u64>().is_err(), "known value extracted as a leaf integer", "");
    ensure!(leaf.elide().extract_subject::<String>().is_err(), "extraction from an elided envelope returned a value", "");
    Ok(())
}
fn e_extract_ok<T: std::any::Any + TryFrom<CBOR, Error = anyhow::Error>>(e: &Envelope, from_obj: bool) -> bool {
    if from_obj { e.extract_object_for_predicate::<T>("k").is_ok() } else { e.extract_subject::<T>().is_ok() }
}

pub fn prop_c12() -> Prop {
    Prop {
        id: "C12",
        scenarios: vec![
            Scenario { name: "proofs", f: c12_proofs, thorough_only: false,
                bounds: "every shape of <=6 (quick) / <=9 (thorough) elements + 30 hand-written shapes (repeated content = multi-position targets, nested nodes, obscured children) x every target set of 0..2 (3) of its distinct element digests (single, multiple, one inside another, the root) optionally plus an absent digest x every digest order; completeness, acceptance by a root-digest-only verifier, minimal disclosure against harness-computed root-to-target paths; soundness: proof checked for another target set, proof with one more element elided, 4 verifiers with other roots, proof made for an enclosing envelope, the fully elided envelope",
                api: &["proof_contains_set", "proof_contains_target", "confirm_contains_set", "confirm_contains_target", "elide", "elide_removing_target"] },
        ],
        assumptions: COMMON_ASSUMPTIONS.to_vec(),
    }
}

pub fn prop_c15() -> Prop {
    Prop {
        id: "C15",
        scenarios: vec![
            Scenario { name: "walk", f: c15_walk, thorough_only: false,
                bounds: "every shape of <=8 (quick) / <=10 (thorough) elements with known values + 30 hand-written shapes + obscured shapes <=5 x both walk modes (visit sequence, level, edge kind, parent threading against a harness traversal of case()) x digests(limit) for every limit 0..depth+2, deep/shallow digests, elements_count, subject/assertions, case predicates x every digest order",
                api: &["walk", "elements_count", "digests", "deep_digests", "shallow_digests", "subject", "assertions", "has_assertions", "is_*"] },
            Scenario { name: "lookup", f: c15_lookup, thorough_only: false,
                bounds: "subject with 1..3 assertions, each with predicate from {A, B}, in 8 forms (plain, elided predicate, elided object, object carrying assertions, decorated, decorated twice, whole assertion elided, whole assertion compressed) x query predicate {A, B, absent} given clear or elided x every digest order: assertions_with_predicate, assertion_with_predicate, optional_*, object(s)_for_predicate, extract_* with none / one / several matches",
                api: &["assertions_with_predicate", "assertion_with_predicate", "optional_assertion_with_predicate", "object_for_predicate", "optional_object_for_predicate", "objects_for_predicate", "extract_object_for_predicate", "extract_objects_for_predicate", "extract_optional_object_for_predicate", "extract_object_for_predicate_with_default"] },
            Scenario { name: "extract", f: c15_extract, thorough_only: false,
                bounds: "15 stored values x 12 extraction types x 3 holders (bare, subject of a node, object of an assertion): Ok(x) implies x encodes to the stored dCBOR; the stored type extracts; wrapped / known value / elided subjects. Catalogue, not solver-quantified",
                api: &["extract_subject", "extract_object_for_predicate"] },
        ],
        assumptions: COMMON_ASSUMPTIONS.to_vec(),
    }
}
