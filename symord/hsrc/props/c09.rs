//! C09 Signatures bind to the subject digest and verification is exact
//! C10 Every recipient, and only a recipient, can open a public-key encrypted envelope
use super::{Prop, COMMON_ASSUMPTIONS};
use crate::engine::{op, Scenario};
use crate::refs::*;
use crate::rt::{self, choice, flag, R};
use crate::spec::*;
use crate::{ensure, must};
use bc_components::{EncapsulationPrivateKey, EncapsulationPublicKey, EncapsulationScheme, SignatureScheme, SigningOptions, SigningPrivateKey, SigningPublicKey, SymmetricKey};
use bc_envelope::prelude::*;
use bc_envelope::{Signer, Verifier};
use std::cell::RefCell;
use std::collections::HashMap;

fn bytes(e: &Envelope) -> Vec<u8> { e.tagged_cbor().to_cbor_data() }

thread_local! {
    static SIGKEYS: RefCell<HashMap<(usize, usize, u64), (SigningPrivateKey, SigningPublicKey)>> = RefCell::new(HashMap::new());
    static ENCKEYS: RefCell<HashMap<(usize, usize, u64), (EncapsulationPrivateKey, EncapsulationPublicKey)>> = RefCell::new(HashMap::new());
}
const SIG_SCHEMES: [&str; 5] = ["Ed25519", "Schnorr", "ECDSA", "ML-DSA-44", "SSH-Ed25519"];
fn sig_scheme(i: usize) -> SignatureScheme { [SignatureScheme::Ed25519, SignatureScheme::Schnorr, SignatureScheme::Ecdsa, SignatureScheme::MLDSA44, SignatureScheme::SshEd25519][i].clone() }
/// key pair `idx` of scheme `scheme` (generated once per worker thread; keys are concrete, not quantified)
fn sigkey(scheme: usize, idx: usize) -> (SigningPrivateKey, SigningPublicKey) {
    SIGKEYS.with(|m| { let mut m = m.borrow_mut(); if m.len() > 64 { m.clear(); } m.entry((scheme, idx, rt::nonce())).or_insert_with(|| {
        let s = sig_scheme(scheme);
        let mut rng = bc_rand::SeededRandomNumberGenerator::new([rt::nonce(), scheme as u64, idx as u64, 99]);
        s.keypair_using(&mut rng, "verif").unwrap_or_else(|_| s.keypair())
    }).clone() })
}
fn sig_options(scheme: usize) -> Option<SigningOptions> {
    if scheme == 4 { Some(SigningOptions::Ssh { namespace: "verif".to_string(), hash_alg: ssh_key::HashAlg::Sha256 }) } else { None }
}
fn enckey(scheme: usize, idx: usize) -> (EncapsulationPrivateKey, EncapsulationPublicKey) {
    ENCKEYS.with(|m| { let mut m = m.borrow_mut(); if m.len() > 64 { m.clear(); } m.entry((scheme, idx, rt::nonce())).or_insert_with(|| {
        let s = [EncapsulationScheme::X25519, EncapsulationScheme::MLKEM512][scheme];
        let mut rng = bc_rand::SeededRandomNumberGenerator::new([rt::nonce(), scheme as u64, idx as u64, 77]);
        s.keypair_using(&mut rng).unwrap_or_else(|_| s.keypair())
    }).clone() })
}

fn subjects() -> Vec<Spec> {
    vec![l(1), k(1001), w(n(l(1), vec![a(l(2), l(3))])), n(l(1), vec![a(l(2), l(3)), a(l(4), w(l(5)))]), a(l(1), l(2)),
         // an envelope whose subject is itself a node (what uncompress_subject / decrypt_subject give back after assertions were added to the obscured node)
         n(n(l(1), vec![a(l(2), l(3))]), vec![a(l(4), l(5))])]
}

// ------------------------------------------------------------------------------------ C09

/// the checks every signed envelope must pass, given who signed
fn check_signers(v: &Envelope, keys: &[(SigningPrivateKey, SigningPublicKey)], signers: &[bool], with_meta: usize, masks: &[usize]) -> R {
    let pubs: Vec<&dyn Verifier> = keys.iter().map(|k| &k.1 as &dyn Verifier).collect();
    for i in 0..3 {
        op("has_signature_from");
        let h = must!(v.has_signature_from(pubs[i]), "has_signature_from failed on honest signatures");
        ensure!(h == signers[i], "has_signature_from disagrees with who signed", "key {} signed={} reported={}", i, signers[i], h);
        op("verify_signature_from");
        ensure!(v.verify_signature_from(pubs[i]).is_ok() == signers[i], "verify_signature_from disagrees with who signed", "key {}", i);
        op("verify_signature_from_returning_metadata");
        let m = v.verify_signature_from_returning_metadata(pubs[i]);
        ensure!(m.is_ok() == signers[i], "verify_signature_from_returning_metadata disagrees with who signed", "key {}", i);
        if let Ok(md) = m {
            if with_meta == i {
                let note = md.extract_object_for_predicate::<String>(known_values::NOTE);
                ensure!(note.ok() == Some(leaf_text(310)), "metadata of the verified signature not returned", "key {}", i);
            } else { ensure!(md.assertions().is_empty(), "metadata returned for a signature made without metadata", "key {}", i); }
        }
    }
    // the explicit-signature forms: each plain signature object verifies exactly under its signer's key
    op("is_verified_signature / verify_signature");
    for obj in v.objects_for_predicate(known_values::SIGNED) {
        if let Ok(sig) = obj.extract_subject::<bc_components::Signature>() {
            let by: Vec<usize> = (0..3).filter(|i| v.is_verified_signature(&sig, pubs[*i])).collect();
            ensure!(by.len() == 1 && signers[by[0]], "a signature object verifies under no key or under several / a non-signer's key", "{:?}", by);
            ensure!(v.verify_signature(&sig, pubs[by[0]]).is_ok() && v.verify_signature(&sig, pubs[(by[0] + 1) % 3]).is_err(), "verify_signature disagrees with is_verified_signature", "");
        }
    }
    for mask in masks {
        let list: Vec<usize> = (0..3).filter(|i| mask >> i & 1 == 1).collect();
        let plist: Vec<&dyn Verifier> = list.iter().map(|i| pubs[*i]).collect();
        let good = list.iter().filter(|i| signers[**i]).count();
        op("has_signatures_from_threshold");
        for t in 1..=list.len() + 1 {
            let r = must!(v.has_signatures_from_threshold(&plist, Some(t)), "threshold check failed on honest signatures");
            ensure!(r == (good >= t), "threshold verification wrong", "keys {:?} signers {:?} threshold {}: {}", list, signers, t, r);
            ensure!(v.verify_signatures_from_threshold(&plist, Some(t)).is_ok() == (good >= t), "verify_signatures_from_threshold wrong", "threshold {}", t);
        }
        let r = must!(v.has_signatures_from(&plist), "has_signatures_from failed");
        ensure!(r == (good == list.len()), "has_signatures_from (all) wrong", "keys {:?} signers {:?}", list, signers);
        ensure!(v.verify_signatures_from(&plist).is_ok() == (good == list.len()), "verify_signatures_from (all) wrong", "keys {:?} signers {:?}", list, signers);
        ensure!(v.verify_signatures_from_threshold(&plist, None).is_ok() == (good == list.len()), "verify_signatures_from_threshold(None) wrong", "keys {:?}", list);
    }
    Ok(())
}

fn signed_envelope(base: &Envelope, keys: &[(SigningPrivateKey, SigningPublicKey)], opts: &Option<SigningOptions>, signers: &[bool], with_meta: usize, before_other: bool) -> Envelope {
    let mut e = base.clone();
    if before_other { e = e.add_assertion(leaf_text(300), leaf_text(301)); }
    op("add_signature_opt");
    for i in 0..3 {
        if signers[i] {
            let md = if with_meta == i { Some(SignatureMetadata::new().with_assertion(known_values::NOTE, leaf_text(310)).with_assertion(leaf_text(311), leaf_text(312))) } else { None };
            e = e.add_signature_opt(&keys[i].0, opts.clone(), md);
        }
    }
    if !before_other { e = e.add_assertion(leaf_text(300), leaf_text(301)); }
    e
}

fn c09_signers() -> R {
    let subs = subjects();
    let s = &subs[[0usize, 1, 2, 5][choice(4)]];
    let keys: Vec<(SigningPrivateKey, SigningPublicKey)> = (0..3).map(|i| sigkey(0, i)).collect();
    let signers = rt::subset(3);
    let with_meta = if flag() { 0 } else { 3 };
    let before_other = flag();
    let base = build(s);
    let e = signed_envelope(&base, &keys, &None, &signers, with_meta, before_other);
    rt::note(format!("{} signers {:?} metadata {} other-first {}", s.show(), signers, with_meta, before_other));
    if let Err(m) = well_formed(&e) { return rt::viol("signed envelope not canonical", m); }
    let mask = 1 + choice(7);
    check_signers(&e, &keys, &signers, with_meta, &[mask])?;
    if with_meta == 3 && mask == 7 {
        // the bulk forms sign like the single form
        op("add_signatures / add_signatures_opt");
        let list: Vec<&dyn Signer> = (0..3).filter(|i| signers[*i]).map(|i| &keys[i].0 as &dyn Signer).collect();
        let mut b = base.clone(); if before_other { b = b.add_assertion(leaf_text(300), leaf_text(301)); }
        let mut bulk = b.add_signatures(&list); if !before_other { bulk = bulk.add_assertion(leaf_text(300), leaf_text(301)); }
        ensure!(bytes(&bulk) == bytes(&e), "add_signatures differs from repeated add_signature", "signers {:?}", signers);
        let list2: Vec<(&dyn Signer, Option<SigningOptions>, Option<SignatureMetadata>)> = list.iter().map(|k| (*k, None, None)).collect();
        let mut bulk2 = b.add_signatures_opt(&list2); if !before_other { bulk2 = bulk2.add_assertion(leaf_text(300), leaf_text(301)); }
        ensure!(bytes(&bulk2) == bytes(&e), "add_signatures_opt differs from repeated add_signature", "signers {:?}", signers);
        for i in 0..3 { let m = must!(e.has_signature_from_returning_metadata(&keys[i].1), "has_signature_from_returning_metadata failed"); ensure!(m.is_some() == signers[i], "has_signature_from_returning_metadata disagrees with who signed", "key {}", i); }
    }
    // a different subject: the same signature assertions do not verify
    op("has_signature_from (other subject)");
    let moved = e.replace_subject(build(&l(350)));
    for i in 0..3 { ensure!(!matches!(moved.has_signature_from(&keys[i].1), Ok(true)), "signature verifies for a different subject", "key {}", i); }
    if signers[0] && mask == 1 {
        op("sign/verify");
        let sg = base.sign(&keys[0].0);
        let un = must!(sg.verify(&keys[0].1), "verify of sign() failed");
        ensure!(bytes(&un) == bytes(&base), "verify(sign(e)) != e", "");
        ensure!(sg.verify(&keys[1].1).is_err(), "verify succeeded under another key", "");
        let (un2, md) = must!(sg.verify_returning_metadata(&keys[0].1), "verify_returning_metadata failed");
        ensure!(bytes(&un2) == bytes(&base) && md.assertions().is_empty(), "verify_returning_metadata returned something else", "");
    }
    Ok(())
}

/// signatures keep verifying after any part other than a signature assertion is obscured
fn c09_obscured() -> R {
    let subs = subjects();
    let s = &subs[choice(subs.len())];
    let keys: Vec<(SigningPrivateKey, SigningPublicKey)> = (0..3).map(|i| sigkey(0, i)).collect();
    let signers = [true, true, false];
    let base = build(s);
    let e = signed_envelope(&base, &keys, &None, &signers, 0, true);
    let sig_digests: Vec<D> = e.assertions_with_predicate(known_values::SIGNED).iter().map(dg).collect();
    let ps = positions(&e);
    let cand: Vec<&Pos> = ps.iter().filter(|p| !p.path.is_empty() && !sig_digests.iter().any(|d| ps.iter().any(|q| q.d == *d && p.path.starts_with(&q.path)))).collect();
    // ... and the 'signed' predicate of a signature assertion itself (lookups match predicates by digest)
    let sig_preds: Vec<&Pos> = ps.iter().filter(|p| p.edge == EdgeType::Predicate && p.d == dg(&Envelope::new(known_values::SIGNED)) && p.path.len() == 2).collect();
    let mut cand = cand; cand.extend(sig_preds);
    let c = cand[choice(cand.len())];
    let how = choice(3);
    rt::assume(!(how == 2 && matches!(c.kind, Kind::Elided | Kind::Encrypted)))?;
    let action = match how { 0 => ObscureAction::Elide, 1 => ObscureAction::Encrypt(test_key()), _ => ObscureAction::Compress };
    rt::note(format!("{} obscure {:?} with {}", s.show(), c.path, how));
    op("elide_removing_target_with_action (after signing)");
    let r = e.elide_removing_target_with_action(&c.env, &action);
    ensure!(dg(&r) == dg(&e), "digest changed by obscuring", "");
    check_signers(&r, &keys, &signers, 0, &[7])?;
    // revealing only the signatures and the root: still verifies
    op("elide_revealing_set (signatures only)");
    let mut keep: Vec<D> = vec![dg(&e)];
    for d in &sig_digests { for q in ps.iter().filter(|q| q.d == *d) { for x in positions(&q.env) { keep.push(x.d); } } }
    let r2 = e.elide_revealing_set(&to_set(&keep));
    ensure!(dg(&r2) == dg(&e), "digest changed by elision", "");
    check_signers(&r2, &keys, &signers, 0, &[3])?;
    // a 'signed' assertion hidden in place and put back (replace by an element of the same digest, both ways)
    op("replace_assertion ('signed' assertion by its obscured form and back)");
    {
        let sas = e.assertions_with_predicate(known_values::SIGNED);
        let sa = &sas[choice(sas.len())];
        let hidden_form = match how { 0 => sa.elide(), _ => must!(sa.compress(), "compress failed") };
        let hidden = must!(e.replace_assertion(sa.clone(), hidden_form.clone()), "replace refused");
        ensure!(dg(&hidden) == dg(&e) && hidden.assertions().len() == e.assertions().len(), "hiding a 'signed' assertion in place changed the envelope's digest or assertion count", "");
        let back = must!(hidden.replace_assertion(hidden_form, sa.clone()), "replace refused");
        ensure!(bytes(&back) == bytes(&e), "putting a hidden 'signed' assertion back does not restore the envelope", "");
        check_signers(&back, &keys, &signers, 0, &[7])?;
    }
    // sign() = wrap + signature on the wrapper: revealing only the wrapper (not its content) and the signatures
    op("sign + elide_revealing_set (wrapper and signatures only) + verify");
    {
        let sg = base.sign(&keys[0].0);
        let mut keep: Vec<D> = vec![dg(&sg), dg(&sg.subject())];
        for a in sg.assertions() { for x in positions(&a) { keep.push(x.d); } }
        let red = sg.elide_revealing_set(&to_set(&keep));
        ensure!(dg(&red) == dg(&sg), "digest changed by elision", "");
        ensure!(must!(red.has_signature_from(&keys[0].1), "has_signature_from failed"), "signature no longer verifies after its wrapper's content was elided", "");
        let v = must!(red.verify(&keys[0].1), "verify failed on a signed envelope whose wrapper's content is elided");
        ensure!(dg(&v) == dg(&base), "verify returned something with another digest than the signed content", "");
        ensure!(red.verify(&keys[2].1).is_err(), "verify succeeded under a key that did not sign", "");
    }
    Ok(())
}

/// every signature scheme
fn c09_schemes() -> R {
    let scheme = choice(5);
    let keys: Vec<(SigningPrivateKey, SigningPublicKey)> = (0..3).map(|i| sigkey(scheme, i)).collect();
    let opts = sig_options(scheme);
    let signers = rt::subset(3);
    let base = build(&l(1));
    let e = signed_envelope(&base, &keys, &opts, &signers, if signers[1] { 1 } else { 3 }, false);
    rt::note(format!("scheme {} signers {:?}", SIG_SCHEMES[scheme], signers));
    check_signers(&e, &keys, &signers, if signers[1] { 1 } else { 3 }, &[7, 5])?;
    let back = must!(Envelope::try_from_cbor_data(bytes(&e)), "decode of signed envelope failed");
    check_signers(&back, &keys, &signers, if signers[1] { 1 } else { 3 }, &[7])?;
    Ok(())
}

/// envelopes carrying adversarial 'signed' assertions next to (or instead of) a genuine signature
fn c09_adversarial() -> R {
    let subs = subjects();
    let s = &subs[choice(3)];
    let scheme = choice(2);
    let (ka, kb) = (sigkey(scheme, 0), sigkey(scheme, 1));
    let base = build(s);
    let genuine = choice(3); // 0: A did not sign, 1: A signed plainly, 2: A signed with metadata
    let mut e = base.clone();
    match genuine {
        1 => e = e.add_signature(&ka.0),
        2 => e = e.add_signature_opt(&ka.0, None, Some(SignatureMetadata::new().with_assertion(known_values::NOTE, "genuine note"))),
        _ => {}
    }
    let subject_digest = dg(&base.subject());
    let other_digest = sha(b"some other subject");
    let sign = |k: &SigningPrivateKey, d: &D| -> Envelope { Envelope::new(k.sign(&d.as_slice()).unwrap()) };
    let adv = choice(8);
    let label = ["B's signature over another digest", "non-signature leaf", "A's genuine signature + forged note, wrapped, no outer signature", "same wrapper with outer signature by B",
        "wrapper whose outer 'signed' assertion carries an assertion", "B-signed wrapper around B's signature over another digest", "A's signature over another digest", "wrapper around a non-signature"][adv];
    rt::note(format!("{} genuine={} adversarial: {}", s.show(), genuine, label));
    // does key A / key B legitimately cover the forged metadata?  (never: every adversarial object below is invalid for both keys)
    let object: Envelope = match adv {
        0 => sign(&kb.0, &other_digest),
        1 => Envelope::new("not a signature"),
        2 => sign(&ka.0, &subject_digest).add_assertion(known_values::NOTE, "forged note").wrap_envelope(),
        3 => { let w = sign(&ka.0, &subject_digest).add_assertion(known_values::NOTE, "forged note").wrap_envelope(); let outer = sign(&kb.0, &dg(&w)); w.add_assertion(known_values::SIGNED, outer) }
        4 => { let w = sign(&ka.0, &other_digest).add_assertion(known_values::NOTE, "forged note").wrap_envelope(); let outer = sign(&ka.0, &dg(&w)); w.add_assertion_envelope(Envelope::new_assertion(known_values::SIGNED, outer).add_assertion("k", "v")).unwrap() }
        5 => { let w = sign(&kb.0, &other_digest).add_assertion(known_values::NOTE, "forged note").wrap_envelope(); let outer = sign(&kb.0, &dg(&w)); w.add_assertion(known_values::SIGNED, outer) }
        6 => sign(&ka.0, &other_digest),
        _ => Envelope::new("junk").add_assertion(known_values::NOTE, "forged note").wrap_envelope(),
    };
    op("add_assertion('signed', adversarial object)");
    let e = e.add_assertion(known_values::SIGNED, object);
    let a_signed = genuine != 0;
    for (name, key, signed) in [("A", &ka.1, a_signed), ("B", &kb.1, false)] {
        let pk: &dyn Verifier = key;
        op("has_signature_from (adversarial)");
        let h = e.has_signature_from(pk);
        // (objects 2 and 3 contain A's genuine signature over this subject: whether A then counts as a signer is left open;
        //  what must never happen is that the forged note comes back as verified metadata, checked below)
        let open_question = name == "A" && !signed && (adv == 2 || adv == 3);
        if signed { ensure!(matches!(h, Ok(true)), "genuine signature no longer verifies once another 'signed' assertion is present", "key {} with {}: {:?}", name, label, h.map_err(|x| x.to_string())); }
        else if !open_question { ensure!(!matches!(h, Ok(true)), "key reported as signer without a valid signature", "key {} with {}", name, label); }
        op("verify_signature_from_returning_metadata (adversarial)");
        let m = e.verify_signature_from_returning_metadata(pk);
        if !signed && !open_question { ensure!(m.is_err(), "metadata returned for a key that did not sign", "key {} with {}", name, label); }
        if let Ok(md) = &m {
            // whatever is returned must be covered by a signature of that key: only the genuine objects qualify
            let note = md.extract_optional_object_for_predicate::<String>(known_values::NOTE).ok().flatten();
            ensure!(note.as_deref() != Some("forged note"), "metadata not covered by a signature from the same key is returned as verified", "key {} with {}", name, label);
            if genuine == 2 { ensure!(note.as_deref() == Some("genuine note"), "genuine metadata not returned", "key {} with {}: {:?}", name, label, note); }
        }
        op("has_signatures_from_threshold (adversarial)");
        let t = e.has_signatures_from_threshold(&[pk], Some(1));
        if signed { ensure!(matches!(t, Ok(true)), "genuine signature no longer counts once another 'signed' assertion is present", "key {} with {}", name, label); }
        else if !open_question { ensure!(!matches!(t, Ok(true)), "threshold met without a valid signature", "key {} with {}", name, label); }
    }
    Ok(())
}

// ------------------------------------------------------------------------------------ C10

fn c10_recipients() -> R {
    let subs = vec![l(1), w(n(l(1), vec![a(l(2), l(3))])), n(k(1001), vec![a(l(2), l(3))]), n(n(l(1), vec![a(l(2), l(3))]), vec![a(l(4), l(5))])];
    let si = choice(subs.len() + 2);
    let s = &subs[si.min(subs.len() - 1)];
    // (two further subjects outside the shape language: a leaf holding the tagged CBOR of an envelope; an assertion with both sides elided)
    let e = if si == subs.len() { Envelope::new(Envelope::new(leaf_text(1)).add_assertion(leaf_text(2), leaf_text(3)).to_cbor()) } else if si == subs.len() + 1 { build(&a(el(l(2)), el(l(3)))) } else { build(s) };
    let before = bytes(&e);
    // four key pairs: X25519 x3 (idx 0..2), ML-KEM-512 x1 (idx 3); lists with duplicates
    let pool: Vec<(EncapsulationPrivateKey, EncapsulationPublicKey)> = vec![enckey(0, 0), enckey(0, 1), enckey(0, 2), enckey(1, 0)];
    let n = 1 + choice(3);
    let list: Vec<usize> = (0..n).map(|_| choice(4)).collect();
    rt::note(format!("{} recipients {:?}", s.show(), list));
    // interleaving with other assertions only for short lists on a bare subject (bounds the node to 4 assertions)
    let form = choice(if n <= 2 && e.assertions().is_empty() { 3 } else { 2 });
    let x = match form {
        0 => {
            op("encrypt_subject_to_recipients");
            let r: Vec<&dyn bc_envelope::Encrypter> = list.iter().map(|i| &pool[*i].1 as &dyn bc_envelope::Encrypter).collect();
            match e.encrypt_subject_to_recipients(&r) { Ok(x) => x, Err(_) => { ensure!(matches!(kind(&e.subject()), Kind::Encrypted | Kind::Elided), "encryption to recipients refused a plain subject", ""); return Ok(()); } }
        }
        _ => {
            // recipients added one at a time: earlier ones keep working after each addition
            op("encrypt_subject + add_recipient");
            let ck = SymmetricKey::from_data({ let mut kb = [0u8; 32]; kb[0] = 9; kb[1..9].copy_from_slice(&rt::nonce().to_be_bytes()); kb });
            let mut x = must!(e.encrypt_subject(&ck), "encrypt_subject failed");
            for (pos, i) in list.iter().enumerate() {
                x = x.add_recipient(&pool[*i].1, &ck);
                if form == 2 { x = x.add_assertion(leaf_text(400 + pos as u32), leaf_text(420 + pos as u32)); }
                for j in &list[..=pos] {
                    let d = must!(x.decrypt_subject_to_recipient(&pool[*j].0), "earlier recipient can no longer decrypt after another recipient was added");
                    ensure!(dg(&d.subject()) == dg(&e.subject()), "recipient decrypted another subject", "");
                }
            }
            x
        }
    };
    ensure!(dg(&x.subject()) == dg(&e.subject()), "encrypted subject has another digest", "");
    ensure!(kind(&x.subject()) == Kind::Encrypted, "subject not encrypted", "");
    // an obscured assertion sitting among the hasRecipient assertions (wherever the hash sorts it) changes nothing
    let with_elided = flag();
    let x = if with_elided { must!(x.add_assertion_envelope(build(&el(a(l(450), l(451))))), "add of an elided assertion refused") } else { x };
    if form == 0 { ensure!(x.assertions().len() == e.assertions().len() + list.len() + with_elided as usize, "one hasRecipient assertion per listed recipient expected", "{} assertions for {:?}", x.assertions().len(), list); }
    if let Err(m) = well_formed(&x) { return rt::viol("recipient-encrypted envelope not canonical", m); }
    for (i, key) in pool.iter().enumerate() {
        op("decrypt_subject_to_recipient");
        let r = x.decrypt_subject_to_recipient(&key.0);
        if list.contains(&i) {
            let d = must!(r, "listed recipient cannot decrypt");
            ensure!(bytes(&d.subject()) == bytes(&e.subject()), "recipient decrypted another subject", "recipient {}", i);
            if form != 2 {
                // removing the hasRecipient assertions gives back the original
                let mut back = d.clone();
                for a in d.assertions_with_predicate(known_values::HAS_RECIPIENT) { back = back.remove_assertion(a); }
                if with_elided { back = back.remove_assertion(build(&el(a(l(450), l(451))))); }
                ensure!(bytes(&back) == before, "decrypted envelope minus recipients differs from the original", "recipient {}", i);
            }
        } else {
            ensure!(r.is_err(), "a private key that is not a recipient decrypted the subject", "key {} list {:?}", i, list);
        }
    }
    Ok(())
}

/// a hasRecipient entry whose sealed message has been obscured in place (by any action) is skipped: the holders of
/// the readable entries still decrypt, nobody else does
fn c10_redacted() -> R {
    let subs = vec![l(1), n(l(1), vec![a(l(2), l(3))])];
    let s = &subs[choice(subs.len())];
    let e = build(s);
    let pool: Vec<(EncapsulationPrivateKey, EncapsulationPublicKey)> = vec![enckey(0, 0), enckey(0, 1), enckey(1, 0)];
    let n = 2 + choice(2);
    let list: Vec<usize> = (0..n).map(|_| choice(3)).collect();
    let ck = SymmetricKey::from_data({ let mut kb = [0u8; 32]; kb[0] = 11; kb[1..9].copy_from_slice(&rt::nonce().to_be_bytes()); kb });
    op("encrypt_subject + add_recipient");
    let mut x = must!(e.encrypt_subject(&ck), "encrypt_subject failed");
    let mut entries: Vec<Envelope> = vec![];
    for i in &list {
        let had: Vec<D> = x.assertions().iter().map(dg).collect();
        x = x.add_recipient(&pool[*i].1, &ck);
        let new = crate::must_some!(x.assertions().into_iter().find(|a| !had.contains(&dg(a))), "add_recipient added no assertion");
        entries.push(new);
    }
    let victim = choice(n);
    let how = choice(3);
    let sealed = crate::must_some!(entries[victim].as_object(), "hasRecipient entry has no object");
    op("elide_removing_target_with_action (one recipient's sealed message)");
    let act = match how { 0 => ObscureAction::Elide, 1 => ObscureAction::Encrypt(test_key()), _ => ObscureAction::Compress };
    let red = x.elide_removing_target_with_action(&sealed, &act);
    ensure!(dg(&red) == dg(&x), "root digest changed by obscuring", "");
    rt::note(format!("{} recipients {:?}, entry {} obscured by action {}", s.show(), list, victim, how));
    // a stale entry the envelope already carried, with an elided object
    let red = if flag() { let stale = build(&l(77)); red.add_assertion(known_values::HAS_RECIPIENT, stale.clone()).elide_removing_target(&stale) } else { red };
    if let Err(m) = well_formed(&red) { return rt::viol("recipient-encrypted envelope not canonical", m); }
    for (i, key) in pool.iter().enumerate() {
        op("decrypt_subject_to_recipient");
        let readable = list.iter().enumerate().any(|(pos, k)| pos != victim && *k == i);
        let r = red.decrypt_subject_to_recipient(&key.0);
        if readable {
            let d = must!(r, "a recipient whose entry is readable cannot decrypt after another entry was obscured");
            ensure!(bytes(&d.subject()) == bytes(&e.subject()), "recipient decrypted another subject", "recipient {}", i);
        } else {
            ensure!(r.is_err(), "a private key without a readable entry decrypted the subject", "key {} list {:?} victim {}", i, list, victim);
        }
    }
    Ok(())
}

fn c10_wrap_and_seal() -> R {
    let mut subs = subjects();
    subs.push(w(l(1)));
    subs.push(w(w(n(l(1), vec![a(l(2), l(3))]))));
    subs.push(n(l(1), vec![a(el(l(2)), el(l(3))), a(l(4), l(5))]));
    // an envelope whose subject is already encrypted (it is wrapped before being encrypted again: onion / forwarding use)
    subs.push(n(en(l(1)), vec![a(l(2), l(3))]));
    subs.push(en(n(l(1), vec![a(l(2), l(3))])));
    let s = &subs[choice(subs.len())];
    let e = build(s);
    // a leaf that holds the tagged CBOR of another envelope, as an assertion's object
    let e = if flag() { e.add_assertion(leaf_text(470), Envelope::new(leaf_text(471)).to_cbor()) } else { e };
    // the same envelope reached by offering one of its assertions again in obscured form (present is decided by digest)
    let e = { let asr = e.assertions(); if !asr.is_empty() && flag() { let i = choice(asr.len()); let again = if flag() { asr[i].elide() } else { must!(asr[i].compress(), "compress failed") }; must!(e.add_assertion_envelope(again), "add refused") } else { e } };
    let before = bytes(&e);
    let esch = choice(2);
    let (rk, other) = (enckey(esch, 0), enckey(esch, 1));
    let cross = enckey(1 - esch, 0);
    rt::note(format!("{} encapsulation scheme {}", s.show(), esch));
    if choice(2) == 0 {
        op("encrypt_to_recipient");
        let x = e.encrypt_to_recipient(&rk.1);
        ensure!(kind(&x.subject()) == Kind::Encrypted, "subject not encrypted", "");
        ensure!(dg(&x.subject()) == sha(&dg(&e)), "encrypted subject is not the wrapped original", "");
        op("decrypt_to_recipient");
        let d = must!(x.decrypt_to_recipient(&rk.0), "recipient cannot decrypt");
        ensure!(bytes(&d) == before && d.is_identical_to(&e), "decrypt_to_recipient(encrypt_to_recipient(e)) is not identical to e", "{}", s.show());
        ensure!(x.decrypt_to_recipient(&other.0).is_err(), "a private key that is not a recipient decrypted the envelope", "same scheme");
        ensure!(x.decrypt_to_recipient(&cross.0).is_err(), "a private key that is not a recipient decrypted the envelope", "other scheme");
    } else {
        let ssch = if rt::thorough() { choice(5) } else { [0usize, 1, 2, 4][choice(4)] };
        let (sk, sk2) = (sigkey(ssch, 0), sigkey(ssch, 1));
        op("seal");
        let x = e.seal_opt(&sk.0, &rk.1, sig_options(ssch));
        op("unseal");
        let d = must!(x.unseal(&sk.1, &rk.0), "unseal with the right keys failed");
        ensure!(bytes(&d) == before && d.is_identical_to(&e), "unseal(seal(e)) is not identical to e", "{}", s.show());
        ensure!(x.unseal(&sk2.1, &rk.0).is_err(), "unseal succeeded with a wrong sender key", "");
        ensure!(x.unseal(&sk.1, &other.0).is_err(), "unseal succeeded with a wrong recipient key", "");
        ensure!(x.unseal(&sk.1, &cross.0).is_err(), "unseal succeeded with a wrong recipient key", "other scheme");
        // a metadata signature that the other sender made on ANOTHER document, lifted onto this one: still not a signature of this envelope
        op("unseal (a foreign metadata signature lifted onto the sealed content)");
        let other_doc = build(&l(990)).wrap_envelope().add_signature_opt(&sk2.0, sig_options(ssch), Some(SignatureMetadata::new().with_assertion(known_values::NOTE, "lifted")));
        let lifted = must!(other_doc.assertion_with_predicate(known_values::SIGNED), "no signature on the other document");
        let forged = must!(e.wrap_envelope().add_signature_opt(&sk.0, sig_options(ssch), None).add_assertion_envelope(lifted), "add refused").encrypt_to_recipient(&rk.1);
        ensure!(forged.unseal(&sk2.1, &rk.0).is_err(), "unseal accepted a sender key that never signed this envelope (a metadata signature made on another document was attached)", "");
        ensure!(forged.unseal(&sk.1, &rk.0).is_ok(), "unseal under the real sender failed once a foreign signature was attached", "");
    }
    Ok(())
}

pub fn prop_c09() -> Prop {
    Prop {
        id: "C09",
        scenarios: vec![
            Scenario { name: "signers", f: c09_signers, thorough_only: false,
                bounds: "4 subjects (leaf, known value, wrapped node, node whose subject is a node) x every signer subset of 3 Ed25519 keys x metadata on signer 0 or none x other assertion added before / after signing x every non-empty key list, every threshold 1..n+1 and None x every digest order (which 'signed' assertion comes first is the hash's choice); different subject; sign/verify(_returning_metadata). Keys are concrete (VERIF_SEED)",
                api: &["add_signature_opt", "has_signature_from", "verify_signature_from", "verify_signature_from_returning_metadata", "has_signatures_from_threshold", "verify_signatures_from_threshold", "has_signatures_from", "sign", "verify", "verify_returning_metadata", "replace_subject"] },
            Scenario { name: "obscured", f: c09_obscured, thorough_only: false,
                bounds: "5 subjects (also node with 2 assertions, assertion) signed by 2 of 3 keys (one with metadata) + one other assertion x any single part outside the signature assertions obscured by any of 3 actions x every digest order; reveal-only-signatures form; a 'signed' assertion replaced by its obscured form and back; sign() + revealing only wrapper and signatures + verify",
                api: &["elide_removing_target_with_action", "elide_revealing_set", "has_signature_from", "has_signatures_from_threshold"] },
            Scenario { name: "schemes", f: c09_schemes, thorough_only: false,
                bounds: "each of Ed25519, Schnorr, ECDSA, ML-DSA-44, SSH-Ed25519 x every signer subset of 3 keys (metadata on signer 1) x thresholds x direct and after encode->decode x every digest order",
                api: &["add_signature_opt", "has_signature_from", "has_signatures_from_threshold", "try_from_cbor_data"] },
            Scenario { name: "adversarial", f: c09_adversarial, thorough_only: false,
                bounds: "3 subjects x {Ed25519, Schnorr} x genuine signature of key A {absent, plain, with metadata} x one of 8 adversarial 'signed' objects (foreign signature over another digest, non-signature leaf, A's genuine signature + forged note wrapped without outer signature, same with outer signature by B, wrapper whose outer 'signed' assertion is decorated, B-signed wrapper over another digest, A's signature over another digest, wrapper around a non-signature) x keys A and B x every digest order",
                api: &["has_signature_from", "verify_signature_from_returning_metadata", "has_signatures_from_threshold"] },
        ],
        assumptions: { let mut v = COMMON_ASSUMPTIONS.to_vec(); v.push("unforgeability of the signature schemes themselves is outside (executed natively, not solver-decided)"); v },
    }
}

pub fn prop_c10() -> Prop {
    Prop {
        id: "C10",
        scenarios: vec![
            Scenario { name: "recipients", f: c10_recipients, thorough_only: false,
                bounds: "6 subjects (leaf, wrapped node, node with one assertion, node whose subject is a node, leaf holding the tagged CBOR of an envelope, assertion with both sides elided) x every recipient list of length 1..3 over 4 key pairs (3 X25519, 1 ML-KEM-512; duplicates allowed) x {encrypt_subject_to_recipients, encrypt_subject + add_recipient one at a time, the same interleaved with other assertions (lists of <=2 on a bare subject)} x each of the 4 private keys (listed and unlisted) x every digest order (which hasRecipient assertion is tried first is the hash's choice)",
                api: &["encrypt_subject_to_recipients", "add_recipient", "recipients", "decrypt_subject_to_recipient", "encrypt_subject", "decrypt_subject"] },
            Scenario { name: "redacted", f: c10_redacted, thorough_only: false,
                bounds: "2 subjects x every recipient list of length 2..3 over 3 key pairs (2 X25519, 1 ML-KEM-512; duplicates allowed) added one at a time x any one entry's sealed message obscured in place by elide / encrypt / compress x with / without a stale hasRecipient entry with an elided object x each of the 3 private keys x every digest order",
                api: &["add_recipient", "elide_removing_target_with_action", "recipients", "decrypt_subject_to_recipient"] },
            Scenario { name: "wrap_and_seal", f: c10_wrap_and_seal, thorough_only: false,
                bounds: "10 envelopes (incl. bare wrapped and doubly wrapped ones, two whose subject is / that are already encrypted, one holding an assertion with both sides elided; with / without an object leaf holding the tagged CBOR of an envelope; as built or after one of their assertions was offered again in elided / compressed form) x {X25519, ML-KEM-512} x {encrypt_to_recipient/decrypt_to_recipient, seal_opt/unseal over sender schemes Ed25519 / Schnorr / ECDSA / SSH-Ed25519 with its signing options (+ ML-DSA-44 thorough)} x right key, wrong key of the same scheme, key of the other scheme, wrong sender, wrong sender whose metadata signature over another document is attached x every digest order",
                api: &["encrypt_to_recipient", "decrypt_to_recipient", "seal_opt", "unseal"] },
        ],
        assumptions: { let mut v = COMMON_ASSUMPTIONS.to_vec(); v.push("KEM / AEAD internals are executed natively with concrete keys (VERIF_SEED), not solver-decided"); v },
    }
}
