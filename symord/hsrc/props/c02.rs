//! C02 Eliding, encrypting or compressing any part never changes any digest
//! C03 Elision hides exactly the targeted elements and leaves no trace of them
//! (one exploration space, two oracle sets)
use super::{Prop, COMMON_ASSUMPTIONS};
use crate::engine::{op, Scenario};
use crate::refs::*;
use crate::rt::{self, choice, flag, R};
use crate::spec::{self, *};
use crate::{ensure, must};
use bc_components::DigestProvider;
use bc_envelope::prelude::*;
use std::collections::HashSet;

fn bytes(e: &Envelope) -> Vec<u8> { e.tagged_cbor().to_cbor_data() }
fn find(hay: &[u8], needle: &[u8]) -> bool { hay.windows(needle.len()).any(|w| w == needle) }

fn leaf_markers(s: &Spec, out: &mut Vec<(Vec<usize>, String)>, path: &mut Vec<usize>) {
    match s {
        Spec::Leaf(i) => out.push((path.clone(), leaf_text(*i))),
        Spec::Wrap(x) => { path.push(0); leaf_markers(x, out, path); path.pop(); }
        Spec::Assert(p, o) => { path.push(0); leaf_markers(p, out, path); path.pop(); path.push(1); leaf_markers(o, out, path); path.pop(); }
        Spec::Node(sub, a) => { path.push(0); leaf_markers(sub, out, path); path.pop(); for (i, x) in a.iter().enumerate() { path.push(i + 1); leaf_markers(x, out, path); path.pop(); } }
        _ => {}
    }
}

/// pick the shape, the target set, the mode and the action symbolically
struct Setup { spec: Spec, e: Envelope, ds: Vec<D>, t: HashSet<D>, revealing: bool, how: usize }
fn setup() -> R<Setup> {
    let cat = if rt::thorough() { spec::catalogue(9, false, false, true) } else { spec::catalogue(7, false, false, true) };
    let kvcat = spec::catalogue(5, true, false, false);
    let obscat = spec::catalogue(if rt::thorough() { 5 } else { 4 }, false, true, false); // shapes that already contain obscured elements anywhere
    let which = choice(cat.len() + kvcat.len() + obscat.len());
    let s = if which < cat.len() { cat[which].clone() } else if which < cat.len() + kvcat.len() { kvcat[which - cat.len()].clone() } else { obscat[which - cat.len() - kvcat.len()].clone() };
    let e = build(&s);
    let ds = distinct_digests(&e);
    let mut t: HashSet<D> = HashSet::new();
    let full = if rt::thorough() { 9 } else { 7 };
    if ds.len() <= full {
        for d in &ds { if flag() { t.insert(*d); } }
    } else {
        // larger shapes: every target set of at most two digests (three in the thorough tier)
        let k = choice(if rt::thorough() { 4 } else { 3 });
        let mut lo = 0;
        for _ in 0..k { rt::assume(lo < ds.len())?; let i = lo + choice(ds.len() - lo); t.insert(ds[i]); lo = i + 1; }
    }
    if flag() { t.insert(sha(b"a digest that occurs nowhere")); }
    let revealing = flag();
    let how = choice(3);
    rt::note(format!("{} targets {:?} {} action {}", s.show(), ds.iter().enumerate().filter(|(_, d)| t.contains(*d)).map(|(i, _)| i).collect::<Vec<_>>(), if revealing { "revealing" } else { "removing" }, ["elide", "encrypt", "compress"][how]));
    Ok(Setup { spec: s, e, ds, t, revealing, how })
}

fn action(how: usize) -> ObscureAction { match how { 0 => ObscureAction::Elide, 1 => ObscureAction::Encrypt(test_key()), _ => ObscureAction::Compress } }
fn obscured_kind(how: usize) -> Kind { match how { 0 => Kind::Elided, 1 => Kind::Encrypted, _ => Kind::Compressed } }

/// (Compress cannot be applied to an element that is already elided or encrypted: such an element,
/// being obscured already, is left as it is)
fn outside(_e: &Envelope, _exp: &[(Vec<usize>, Option<bool>)], _how: usize) -> bool { false }

fn run_obscure(s: &Setup) -> R<Envelope> {
    let tset = to_set(&s.t.iter().cloned().collect::<Vec<_>>());
    // the array / single-target / plain-elide entry points must agree with the set form
    let providers: Vec<Digest> = s.t.iter().map(|d| Digest::from_data(*d)).collect();
    let refs: Vec<&dyn DigestProvider> = providers.iter().map(|d| d as &dyn DigestProvider).collect();
    let form = choice(if refs.len() == 1 { 3 } else { 2 });
    op(match (s.revealing, form) { (true, 0) => "elide_revealing_set_with_action", (false, 0) => "elide_removing_set_with_action", (true, 1) => "elide_revealing_array_with_action", (false, 1) => "elide_removing_array_with_action", (true, _) => "elide_revealing_target_with_action", (false, _) => "elide_removing_target_with_action" });
    let act = action(s.how);
    let r = match (s.revealing, form) {
        (true, 0) => s.e.elide_revealing_set_with_action(&tset, &act), (false, 0) => s.e.elide_removing_set_with_action(&tset, &act),
        (true, 1) => s.e.elide_revealing_array_with_action(&refs, &act), (false, 1) => s.e.elide_removing_array_with_action(&refs, &act),
        (true, _) => s.e.elide_revealing_target_with_action(refs[0], &act), (false, _) => s.e.elide_removing_target_with_action(refs[0], &act),
    };
    if s.how == 0 {
        // the forms without an action are the Elide action
        let plain = match (s.revealing, form) {
            (true, 0) => s.e.elide_revealing_set(&tset), (false, 0) => s.e.elide_removing_set(&tset),
            (true, 1) => s.e.elide_revealing_array(&refs), (false, 1) => s.e.elide_removing_array(&refs),
            (true, _) => s.e.elide_revealing_target(refs[0]), (false, _) => s.e.elide_removing_target(refs[0]),
        };
        ensure!(bytes(&plain) == bytes(&r), "elide_* without action differs from the Elide action", "form {}", form);
    }
    Ok(r)
}

fn c02_targets() -> R {
    let s = setup()?;
    let exp = expected_elision(&s.e, &s.t, s.revealing);
    rt::assume(!outside(&s.e, &exp, s.how))?;
    let before = bytes(&s.e);
    let r = run_obscure(&s)?;
    ensure!(bytes(&s.e) == before, "obscuring altered its receiver", "");
    ensure!(dg(&r) == dg(&s.e), "root digest changed by obscuring", "{}", s.spec.show());
    let po = positions(&s.e);
    for p in positions(&r) {
        let o = crate::must_some!(at(&po, &p.path), "result has a position the original lacks");
        ensure!(o.d == p.d, "digest at a surviving position changed", "at {:?}: {} -> {}", p.path, hex::encode(&o.d[..4]), hex::encode(&p.d[..4]));
    }
    if let Err(m) = check_tree(&r) { return rt::viol("stored digests disagree with recomputation after obscuring", m); }
    let _ = &s.ds;
    Ok(())
}

/// envelopes that already contain obscured elements: obscure once (any single position, any action),
/// then obscure the result again with another target set / mode / action
fn c02_two_pass() -> R {
    let cat = if rt::thorough() { spec::catalogue(7, false, false, true) } else { spec::catalogue(5, false, false, false) };
    let extra = vec![
        n(w(n(l(1), vec![a(l(2), l(3))])), vec![a(l(4), l(5))]),
        n(l(1), vec![a(l(2), w(l(3))), a(l(4), l(5))]),
        w(w(n(l(1), vec![a(l(2), l(3))]))),
        n(l(1), vec![n(a(l(2), l(3)), vec![a(l(4), l(5))])]),
    ];
    let i = choice(cat.len() + extra.len());
    let s = if i < cat.len() { &cat[i] } else { &extra[i - cat.len()] };
    let e = build(s);
    let ps = positions(&e);
    let first = &ps[choice(ps.len())];
    let how1 = choice(3);
    op("elide_removing_set_with_action (first pass)");
    let r1 = e.elide_removing_set_with_action(&to_set(&[first.d]), &action(how1));
    ensure!(dg(&r1) == dg(&e), "root digest changed by obscuring", "first pass");
    // second pass over the already-obscured envelope
    let ds = distinct_digests(&e);
    let mut t: HashSet<D> = HashSet::new();
    let k = choice(3);
    let mut lo = 0;
    for _ in 0..k { rt::assume(lo < ds.len())?; let i = lo + choice(ds.len() - lo); t.insert(ds[i]); lo = i + 1; }
    let revealing = flag();
    let how2 = choice(3);
    let exp = expected_elision(&r1, &t, revealing);
    rt::assume(!outside(&r1, &exp, how2))?;
    rt::note(format!("{} first {:?}/{} then {} {:?} action {}", s.show(), first.path, how1, if revealing { "revealing" } else { "removing" }, t.len(), how2));
    op("elide_set_with_action (second pass)");
    let tset = to_set(&t.iter().cloned().collect::<Vec<_>>());
    let r2 = r1.elide_set_with_action(&tset, revealing, &action(how2));
    ensure!(dg(&r2) == dg(&e), "root digest changed by obscuring an already obscured envelope", "{}", s.show());
    let p1 = positions(&r1);
    for p in positions(&r2) {
        let o = crate::must_some!(at(&p1, &p.path), "result has a position the original lacks");
        ensure!(o.d == p.d, "digest at a surviving position changed", "second pass at {:?}", p.path);
    }
    if let Err(m) = check_tree(&r2) { return rt::viol("stored digests disagree with recomputation after obscuring", m); }
    Ok(())
}

/// whole-envelope forms: elide(), encrypt_subject, encrypt, compress, compress_subject
fn c02_whole() -> R {
    let cat = if rt::thorough() { spec::catalogue(9, true, false, true) } else { spec::catalogue(7, true, false, true) };
    let s = &cat[choice(cat.len())];
    let mut e = build(s);
    let key = test_key();
    // optionally hide two of its assertions in place first (any action each), so that the whole-envelope form meets
    // several obscured assertion elements side by side
    let asr = e.assertions();
    let mut pre = String::new();
    if asr.len() >= 2 && flag() {
        let i = choice(asr.len() - 1); let j = i + 1 + choice(asr.len() - 1 - i);
        let (h1, h2) = (choice(3), choice(3));
        op("elide_removing_target_with_action (two assertions, before the whole-envelope form)");
        let r1 = e.elide_removing_target_with_action(&asr[i], &action(h1));
        let r2 = r1.elide_removing_target_with_action(&asr[j], &action(h2));
        ensure!(dg(&r2) == dg(&e), "root digest changed by obscuring", "two assertions of {}", s.show());
        ensure!(r2.assertions().len() == asr.len(), "assertion count changed by obscuring", "two assertions of {}", s.show());
        pre = format!(" after hiding assertions {} and {} ({}/{})", i, j, h1, h2);
        e = r2;
    }
    // or take one assertion out first (the node is rebuilt by another operation before the whole-envelope form)
    let asr = e.assertions();
    if pre.is_empty() && asr.len() >= 3 && flag() {
        let i = choice(asr.len());
        op("remove_assertion (before the whole-envelope form)");
        e = e.remove_assertion(asr[i].clone());
        pre = format!(" after removing assertion {}", i);
    }
    let before = bytes(&e);
    rt::note(format!("{}{}", s.show(), pre));
    let form = choice(5);
    let r = match form {
        0 => { op("elide"); let r = e.elide(); ensure!(kind(&r) == Kind::Elided, "elide() did not give an elided element", ""); r }
        1 => { op("encrypt_subject"); match e.encrypt_subject(&key) { Ok(r) => r, Err(_) => { ensure!(matches!(kind(&e.subject()), Kind::Encrypted | Kind::Elided), "encrypt_subject refused a plain subject", ""); return Ok(()); } } }
        2 => { op("encrypt"); let r = e.encrypt(&key); ensure!(dg(&r) == sha(&dg(&e)), "encrypt(): digest is not that of the wrapped original", ""); let back = must!(r.decrypt(&key), "decrypt failed"); ensure!(bytes(&back) == before, "decrypt(encrypt(e)) != e", ""); return Ok(()); }
        3 => { op("compress"); match e.compress() { Ok(r) => r, Err(_) => { ensure!(matches!(kind(&e), Kind::Encrypted | Kind::Elided), "compress refused a plain envelope", ""); return Ok(()); } } }
        _ => { op("compress_subject"); match e.compress_subject() { Ok(r) => r, Err(_) => { ensure!(matches!(kind(&e.subject()), Kind::Encrypted | Kind::Elided), "compress_subject refused a plain subject", ""); return Ok(()); } } }
    };
    ensure!(bytes(&e) == before, "obscuring altered its receiver", "form {}", form);
    ensure!(dg(&r) == dg(&e), "root digest changed by whole-envelope obscuring", "form {} on {}{}", form, s.show(), pre);
    if form == 1 || form == 4 {
        ensure!(dg(&r.subject()) == dg(&e.subject()), "subject digest changed", "form {}", form);
        let (ra, ea) = (r.assertions(), e.assertions());
        ensure!(ra.len() == ea.len(), "assertion count changed", "form {}", form);
        for (x, y) in ra.iter().zip(ea.iter()) { ensure!(bytes(x) == bytes(y), "an assertion changed", "form {}", form); }
    }
    if let Err(m) = well_formed(&r) { return rt::viol("obscured envelope not canonical", m); }
    Ok(())
}

fn c03_targets() -> R {
    let s = setup()?;
    let exp = expected_elision(&s.e, &s.t, s.revealing);
    rt::assume(!outside(&s.e, &exp, s.how))?;
    let r = run_obscure(&s)?;
    let po = positions(&s.e);
    let pr = positions(&r);
    let mut expected_paths = 0;
    for (path, v) in &exp {
        let o = at(&po, path).unwrap();
        match v {
            None => ensure!(at(&pr, path).is_none(), "element below a hidden element is still present", "at {:?}", path),
            Some(true) => {
                expected_paths += 1;
                let x = crate::must_some!(at(&pr, path), "hidden element vanished instead of being replaced by a placeholder");
                let want = if s.how == 2 && matches!(o.kind, Kind::Elided | Kind::Encrypted) { o.kind } else { obscured_kind(s.how) };
                ensure!(x.kind == want, "targeted element not obscured as the action says", "at {:?}: {:?} (original {:?}), expected {:?}", path, x.kind, o.kind, want);
                ensure!(x.d == o.d, "placeholder carries another digest", "at {:?}", path);
            }
            Some(false) => {
                expected_paths += 1;
                let x = crate::must_some!(at(&pr, path), "untargeted element vanished");
                ensure!(x.kind == o.kind, "untargeted element changed case", "at {:?}: {:?} -> {:?}", path, o.kind, x.kind);
                if matches!(o.kind, Kind::Leaf | Kind::Known | Kind::Elided | Kind::Encrypted | Kind::Compressed) {
                    ensure!(bytes(&x.env) == bytes(&o.env), "untargeted element changed content", "at {:?}", path);
                }
            }
        }
    }
    ensure!(pr.len() == expected_paths, "result has unexpected extra positions", "{} vs {}", pr.len(), expected_paths);
    // residue: markers of leaves that are no longer visible must not occur in the serialization
    if s.how != 2 {
        let out = bytes(&r);
        let mut marks = vec![];
        leaf_markers(&s.spec, &mut marks, &mut vec![]);
        // spec paths list assertions in spec order, library positions in digest order: match leaves by digest
        for (_, text) in marks {
            let d = sha(&cbor_text(&text));
            let visible = pr.iter().any(|p| p.d == d && p.kind == Kind::Leaf);
            let present = find(&out, text.as_bytes());
            ensure!(visible || !present, "content of a hidden leaf remains in the serialization", "{:?}", text);
            ensure!(!visible || present, "visible leaf missing from the serialization", "{:?}", text);
        }
    }
    if s.how == 0 {
        // nothing but 32-byte digests: the serialized grammar accepts it and yields the same root digest
        match grammar(&bytes(&r)) { Ok(d) => ensure!(d == dg(&s.e), "digest from the elided bytes differs", ""), Err(m) => return rt::viol("elided envelope does not follow the grammar", m) }
        // size bound: every placeholder costs exactly 34 bytes (0x58 0x20 + 32)
        for p in &pr { if p.kind == Kind::Elided { let b = p.env.untagged_cbor().to_cbor_data(); ensure!(b.len() == 34 && b[0] == 0x58 && b[1] == 0x20, "elided placeholder is not a bare 32-byte string", "{}", hex::encode(&b)); } }
    }
    Ok(())
}

fn c03_unelide() -> R {
    let cat = spec::catalogue(7, false, false, true);
    let s = &cat[choice(cat.len())];
    let e = build(s);
    let ps = positions(&e);
    let i = choice(ps.len());
    let target = &ps[i];
    op("elide_removing_target");
    let r = e.elide_removing_target(&target.env);
    let pr = positions(&r);
    let ph = crate::must_some!(pr.iter().find(|p| p.d == target.d), "placeholder not found");
    if is_obscured_kind(target.kind) { return Ok(()); }
    ensure!(ph.kind == Kind::Elided, "target not elided", "");
    op("unelide");
    let back = must!(ph.env.unelide(target.env.clone()), "unelide refused the original element");
    ensure!(bytes(&back) == bytes(&target.env), "unelide returned something else", "");
    // any element with another digest is refused
    let j = choice(ps.len());
    if ps[j].d != target.d {
        ensure!(ph.env.unelide(ps[j].env.clone()).is_err(), "unelide accepted an envelope with another digest", "placeholder {:?} given {:?}", target.path, ps[j].path);
    }
    // whole-envelope unelide
    let whole = e.elide();
    let w = must!(whole.unelide(e.clone()), "unelide refused the original envelope");
    ensure!(bytes(&w) == bytes(&e), "unelide returned something else", "");
    Ok(())
}

const API: &[&str] = &["elide_removing_set_with_action", "elide_revealing_set_with_action", "elide_set_with_action", "elide", "compress", "new_with_encrypted (via Encrypt action)", "tagged_cbor"];

pub fn prop_c02() -> Prop {
    Prop {
        id: "C02",
        scenarios: vec![
            Scenario { name: "targets", f: c02_targets, thorough_only: false,
                bounds: "every shape of <=7 elements (quick) / <=9 (thorough) + 21 larger hand-written shapes (incl. already obscured children, repeated content, node-subject-node) + shapes with known values <=5 + every shape of <=4 (5) elements that already contains elided / encrypted / compressed elements x set / array / single-target entry points (with and without action) x target set = every subset of the shape's distinct element digests when it has <=7 (9) of them, else every set of <=2 (3) digests, optionally plus an absent digest x {removing, revealing} x {Elide, Encrypt, Compress} x every digest order.",
                api: API },
            Scenario { name: "two_pass", f: c02_two_pass, thorough_only: false,
                bounds: "every shape of <=5 elements + 4 nested shapes (quick) / <=7 + 30 hand-written shapes (thorough) x first pass: any single position obscured with any action x second pass over the result: every target set of <=2 digests x {removing, revealing} x 3 actions x every digest order",
                api: API },
            Scenario { name: "whole", f: c02_whole, thorough_only: false,
                bounds: "every shape of <=7 (9) elements with known values + larger shapes, as built, with any two of its assertions first hidden in place (each by elide / encrypt / compress), or with one of >=3 assertions removed first x {elide, encrypt_subject, encrypt/decrypt, compress, compress_subject} x every digest order",
                api: &["elide", "encrypt_subject", "encrypt", "decrypt", "compress", "compress_subject"] },
        ],
        assumptions: COMMON_ASSUMPTIONS.to_vec(),
    }
}

pub fn prop_c03() -> Prop {
    Prop {
        id: "C03",
        scenarios: vec![
            Scenario { name: "targets", f: c03_targets, thorough_only: false,
                bounds: "same space as C02/targets; reference semantics computed in the harness from the documentation (hidden iff own or an ancestor's digest is in T when removing; visible iff own and all ancestors' digests are in T when revealing); residue check: the unique text marker of every leaf that is no longer visible does not occur in the serialization (Elide and Encrypt actions)",
                api: API },
            Scenario { name: "unelide", f: c03_unelide, thorough_only: false,
                bounds: "every shape of <=7 elements + larger shapes x every position elided x unelide with the original element and with every other element of the envelope x every digest order",
                api: &["elide_removing_target", "unelide", "elide"] },
        ],
        assumptions: COMMON_ASSUMPTIONS.to_vec(),
    }
}
