//! C16 No operation panics on any envelope
use super::{Prop, COMMON_ASSUMPTIONS};
use crate::engine::{op, Scenario};
use crate::refs::*;
use crate::rt::{self, choice, R};
use crate::spec::{self, *};
use bc_components::{EncapsulationScheme, SignatureScheme};
use bc_envelope::prelude::*;
use dcbor::prelude::*;

fn bytes(e: &Envelope) -> Vec<u8> { e.tagged_cbor().to_cbor_data() }

/// envelopes of every kind the library can produce or decode: plain shapes, obscured shapes,
/// decorated ('salted') assertions, well-known predicates carrying junk / decorated objects
fn receiver() -> (String, Envelope) {
    let cat = if rt::thorough() { spec::catalogue(7, true, false, true) } else { spec::catalogue(5, true, false, true) };
    let obs = spec::catalogue(if rt::thorough() { 5 } else { 4 }, false, true, false);
    let i = choice(cat.len() + obs.len() + 1);
    if i < cat.len() { return (cat[i].show(), build(&cat[i])); }
    if i < cat.len() + obs.len() { let s = &obs[i - cat.len()]; return (s.show(), build(s)); }
    let sp = special_receivers();
    let j = choice(sp.len());
    (sp[j].0.clone(), (sp[j].1)())
}
fn special_receivers() -> Vec<(String, Box<dyn Fn() -> Envelope>)> {
    let mut out: Vec<(String, Box<dyn Fn() -> Envelope>)> = vec![];
    let base = Envelope::new("subject");
    let key = test_key();
    let (sk, _) = SignatureScheme::Ed25519.keypair_using(&mut bc_rand::SeededRandomNumberGenerator::new([rt::nonce(), 1, 2, 3]), "").unwrap();
    let (_, pk) = EncapsulationScheme::X25519.keypair_using(&mut bc_rand::SeededRandomNumberGenerator::new([rt::nonce(), 4, 5, 6])).unwrap();
    let kvs = [known_values::SIGNED, known_values::HAS_RECIPIENT, known_values::SSKR_SHARE, known_values::IS_A, known_values::ATTACHMENT, known_values::SALT, known_values::NOTE, known_values::BODY, known_values::RESULT, known_values::ERROR, known_values::CONTENT, known_values::DATE, known_values::VENDOR, known_values::CONFORMS_TO];
    let mut kv_cur = known_values::SIGNED;
    let _ = &kv_cur;
    for kv in kvs.iter() {
        kv_cur = kv.clone();
        // the well-known predicate with a junk object, with an elided object, decorated (carrying its own assertion), twice
        { let (base, key, sk, pk, kv) = (base.clone(), key.clone(), sk.clone(), pk.clone(), kv_cur.clone()); let _ = (&base, &key, &sk, &pk, &kv); out.push((format!("'{}': junk", kv.name()), Box::new(move || base.add_assertion(kv.clone(), "junk")))); }
        { let (base, key, sk, pk, kv) = (base.clone(), key.clone(), sk.clone(), pk.clone(), kv_cur.clone()); let _ = (&base, &key, &sk, &pk, &kv); out.push((format!("'{}': ELIDED", kv.name()), Box::new(move || base.add_assertion(kv.clone(), Envelope::new("x").elide())))); }
        { let (base, key, sk, pk, kv) = (base.clone(), key.clone(), sk.clone(), pk.clone(), kv_cur.clone()); let _ = (&base, &key, &sk, &pk, &kv); out.push((format!("'{}': junk [decorated]", kv.name()), Box::new(move || base.add_assertion_envelope(Envelope::new_assertion(kv.clone(), "junk").add_assertion("k", "v")).unwrap()))); }
        { let (base, key, sk, pk, kv) = (base.clone(), key.clone(), sk.clone(), pk.clone(), kv_cur.clone()); let _ = (&base, &key, &sk, &pk, &kv); out.push((format!("'{}' twice", kv.name()), Box::new(move || base.add_assertion(kv.clone(), "a").add_assertion(kv.clone(), 7)))); }
        { let (base, key, sk, pk, kv) = (base.clone(), key.clone(), sk.clone(), pk.clone(), kv_cur.clone()); let _ = (&base, &key, &sk, &pk, &kv); out.push((format!("'{}': wrapped node", kv.name()), Box::new(move || base.add_assertion(kv.clone(), base.add_assertion("p", "o").wrap_envelope())))); }
    }
    { let (base, key, sk, pk, kv) = (base.clone(), key.clone(), sk.clone(), pk.clone(), kv_cur.clone()); let _ = (&base, &key, &sk, &pk, &kv); out.push(("salted assertion".into(), Box::new(move || base.add_assertion_salted("p", "o", true)))); }
    // text whose 40th / 20th byte falls inside a multi-byte character (summaries truncate long text)
    out.push(("long non-ASCII text".into(), Box::new(|| Envelope::new(format!("{}\u{e9}\u{e9}\u{6c34}\u{1f600} and more text after it to be long enough", "a".repeat(39))).add_assertion(format!("{}\u{1f600}\u{1f600}\u{1f600}", "b".repeat(19)), format!("{}\u{6c34}\u{6c34}\u{6c34}{}", "c".repeat(38), "d".repeat(30))))));
    // an encrypted element whose additional data is present but is not a digest (only a constructor that lets it through makes it a receiver)
    { let (base, key) = (base.clone(), key.clone()); out.push(("encrypted element with junk additional data".into(), Box::new(move || {
        let m = key.encrypt(b"content".to_vec(), Some(b"not a digest".to_vec()), None::<bc_components::Nonce>);
        match Envelope::try_from(m) { Ok(bad) => base.add_assertion("p", bad), Err(_) => base.clone() }
    }))); }
    // a signature with metadata (its object is a wrapped, signed 'Signature [metadata]' node) with parts of that object hidden
    for which in 0..4usize {
        let (base, sk) = (base.clone(), sk.clone());
        out.push((format!("signed with metadata, part {} of the signature object hidden", which), Box::new(move || {
            let s = base.add_signature_opt(&sk, None, Some(SignatureMetadata::new().with_assertion(known_values::NOTE, "a note")));
            let sa = s.assertions_with_predicate(known_values::SIGNED)[0].clone();
            let obj = sa.as_object().unwrap();               // wrapper [ 'signed': outer signature ]
            let wrapper = obj.subject();                       // { Signature [ note ] }
            let target = match which { 0 => wrapper.unwrap_envelope().unwrap_or(wrapper.clone()), 1 => wrapper.clone(), 2 => wrapper.unwrap_envelope().map(|x| x.subject()).unwrap_or(wrapper.clone()), _ => obj.assertions().first().cloned().unwrap_or(obj.clone()) };
            s.elide_removing_target(&target)
        })));
    }
    { let (base, sk) = (base.clone(), sk.clone()); out.push(("sign()ed, the wrapper's content elided".into(), Box::new(move || { let s = base.add_assertion("p", "o").sign(&sk); let inner = s.subject().unwrap_envelope().unwrap(); s.elide_removing_target(&inner) }))); }
    // 'sskrShare' objects that decode as an SSKR share but are too short / too odd to be one
    for data in [vec![], vec![1u8], vec![1u8, 2], vec![1u8, 2, 3, 4, 5], vec![0xffu8; 7], vec![0u8; 37]] {
        let (base, data) = (base.clone(), data.clone());
        out.push((format!("'sskrShare': share of {} bytes", data.len()), Box::new(move || base.add_assertion(known_values::SSKR_SHARE, bc_components::SSKRShare::from_data(data.clone())))));
    }
    { let base = base.clone(); out.push(("two 'sskrShare' shares of 5 bytes with one identifier".into(), Box::new(move || base.add_assertion(known_values::SSKR_SHARE, bc_components::SSKRShare::from_data(vec![9u8, 9, 0, 0, 1])).add_assertion(known_values::SSKR_SHARE, bc_components::SSKRShare::from_data(vec![9u8, 9, 0, 1, 2]))))); }
    // encrypted / compressed elements whose content is not a well-formed envelope, bare and carrying an assertion
    for (name, payload) in super::c08::malformed_payloads().into_iter().take(3) {
        { let (key, payload) = (key.clone(), payload.clone()); out.push((format!("encrypted element holding: {}", name), Box::new(move || {
            let m = key.encrypt_with_digest(payload.clone(), Digest::from_image(&payload), Some(bc_components::Nonce::from_data_ref([7u8; 12]).unwrap()));
            Envelope::try_from(m).unwrap().add_assertion("p", "o")
        }))); }
        { let payload = payload.clone(); out.push((format!("compressed element holding: {}", name), Box::new(move || {
            let c = bc_components::Compressed::from_uncompressed_data(payload.clone(), Some(Digest::from_image(&payload)));
            let x = Envelope::try_from(c).unwrap();
            if payload.len() % 2 == 0 { x } else { x.add_assertion("p", "o") }
        }))); }
    }
    { let (base, key, sk, pk, kv) = (base.clone(), key.clone(), sk.clone(), pk.clone(), kv_cur.clone()); let _ = (&base, &key, &sk, &pk, &kv); out.push(("signed + salted signature".into(), Box::new(move || base.add_signature(&sk).add_assertion_salted("p", "o", true)))); }
    { let (base, key, sk, pk, kv) = (base.clone(), key.clone(), sk.clone(), pk.clone(), kv_cur.clone()); let _ = (&base, &key, &sk, &pk, &kv); out.push(("signed, signature assertion decorated".into(), Box::new(move || { let s = base.add_signature(&sk); let a = s.assertions()[0].clone(); s.remove_assertion(a.clone()).add_assertion_envelope(a.add_assertion("k", "v")).unwrap() }))); }
    { let (base, key, sk, pk, kv) = (base.clone(), key.clone(), sk.clone(), pk.clone(), kv_cur.clone()); let _ = (&base, &key, &sk, &pk, &kv); out.push(("recipient, decorated".into(), Box::new(move || { let x = base.encrypt_subject(&key).unwrap().add_recipient(&pk, &key); let a = x.assertions()[0].clone(); x.remove_assertion(a.clone()).add_assertion_envelope(a.add_assertion("k", "v")).unwrap() }))); }
    { let (base, key, sk, pk, kv) = (base.clone(), key.clone(), sk.clone(), pk.clone(), kv_cur.clone()); let _ = (&base, &key, &sk, &pk, &kv); out.push(("attachment".into(), Box::new(move || base.add_attachment("payload", "vendor", Some("conf"))))); }
    { let (base, key, sk, pk, kv) = (base.clone(), key.clone(), sk.clone(), pk.clone(), kv_cur.clone()); let _ = (&base, &key, &sk, &pk, &kv); out.push(("attachment, decorated".into(), Box::new(move || base.add_assertion_envelope(Envelope::new_attachment("payload", "vendor", None).add_assertion("k", "v")).unwrap()))); }
    { let (base, key, sk, pk, kv) = (base.clone(), key.clone(), sk.clone(), pk.clone(), kv_cur.clone()); let _ = (&base, &key, &sk, &pk, &kv); out.push(("attachment without vendor".into(), Box::new(move || base.add_assertion(known_values::ATTACHMENT, Envelope::new("payload").wrap_envelope())))); }
    { let (base, key, sk, pk, kv) = (base.clone(), key.clone(), sk.clone(), pk.clone(), kv_cur.clone()); let _ = (&base, &key, &sk, &pk, &kv); out.push(("encrypted subject + assertion".into(), Box::new(move || base.add_assertion("p", "o").encrypt_subject(&key).unwrap()))); }
    { let (base, key, sk, pk, kv) = (base.clone(), key.clone(), sk.clone(), pk.clone(), kv_cur.clone()); let _ = (&base, &key, &sk, &pk, &kv); out.push(("elided subject + assertion".into(), Box::new(move || base.add_assertion("p", "o").elide_removing_target(&base)))); }
    { let (base, key, sk, pk, kv) = (base.clone(), key.clone(), sk.clone(), pk.clone(), kv_cur.clone()); let _ = (&base, &key, &sk, &pk, &kv); out.push(("compressed node as subject".into(), Box::new(move || base.add_assertion("p", "o").compress().unwrap().add_assertion("q", "r")))); }
    { let (base, key, sk, pk, kv) = (base.clone(), key.clone(), sk.clone(), pk.clone(), kv_cur.clone()); let _ = (&base, &key, &sk, &pk, &kv); out.push(("request-like".into(), Box::new(move || Envelope::new(CBOR::to_tagged_value(40004u64, "not an arid")).add_assertion(known_values::BODY, "junk")))); }
    { let (base, key, sk, pk, kv) = (base.clone(), key.clone(), sk.clone(), pk.clone(), kv_cur.clone()); let _ = (&base, &key, &sk, &pk, &kv); out.push(("response-like, both".into(), Box::new(move || Envelope::new(CBOR::to_tagged_value(40005u64, 5u8)).add_assertion(known_values::RESULT, 1).add_assertion(known_values::ERROR, 2)))); }
    // node whose subject is a node, assertion under two node levels (decoder shapes)
    { let (base, key, sk, pk, kv) = (base.clone(), key.clone(), sk.clone(), pk.clone(), kv_cur.clone()); let _ = (&base, &key, &sk, &pk, &kv); out.push(("node-subject-node".into(), Box::new(move || build(&n(n(l(1), vec![a(l(2), l(3))]), vec![a(l(4), l(5))]))))); }
    { let (base, key, sk, pk, kv) = (base.clone(), key.clone(), sk.clone(), pk.clone(), kv_cur.clone()); let _ = (&base, &key, &sk, &pk, &kv); out.push(("assertion under two nodes".into(), Box::new(move || build(&n(l(1), vec![n(n(a(l(2), l(3)), vec![a(l(4), l(5))]), vec![a(l(6), l(7))])]))))); }
    out
}

const N_OPS: usize = 60;
fn run_op(k: usize, e: &Envelope, arg: &Envelope) -> &'static str {
    let key = test_key();
    let wrong = other_key();
    let (sk, pk) = SignatureScheme::Ed25519.keypair_using(&mut bc_rand::SeededRandomNumberGenerator::new([rt::nonce(), 1, 2, 3]), "").unwrap();
    let (esk, epk) = EncapsulationScheme::X25519.keypair_using(&mut bc_rand::SeededRandomNumberGenerator::new([rt::nonce(), 4, 5, 6])).unwrap();
    let ds = distinct_digests(e);
    let t1 = to_set(&ds.iter().take(2).cloned().collect::<Vec<_>>());
    let t2 = to_set(&ds.iter().skip(1).take(3).cloned().collect::<Vec<_>>());
    macro_rules! o { ($name:expr, $body:expr) => {{ op($name); let _ = $body; $name }}; }
    match k {
        0 => o!("subject/assertions/as_*", { let _ = (e.subject(), e.assertions(), e.has_assertions(), e.as_assertion(), e.as_predicate(), e.as_object(), e.as_leaf(), e.as_known_value().cloned()); let _ = (e.try_assertion().is_ok(), e.try_predicate().is_ok(), e.try_object().is_ok(), e.try_leaf().is_ok(), e.try_known_value().is_ok(), e.try_byte_string().is_ok()); }),
        1 => o!("extract_subject::<T>", { let _ = e.extract_subject::<String>().is_ok(); let _ = e.extract_subject::<u64>().is_ok(); let _ = e.extract_subject::<i8>().is_ok(); let _ = e.extract_subject::<f64>().is_ok(); let _ = e.extract_subject::<bool>().is_ok(); let _ = e.extract_subject::<dcbor::Date>().is_ok(); let _ = e.extract_subject::<dcbor::ByteString>().is_ok(); let _ = e.extract_subject::<Envelope>().is_ok(); let _ = e.extract_subject::<KnownValue>().is_ok(); let _ = e.extract_subject::<bc_envelope::Assertion>().is_ok(); let _ = e.extract_subject::<Digest>().is_ok(); let _ = e.extract_subject::<bc_components::Signature>().is_ok(); let _ = e.extract_subject::<bc_components::SealedMessage>().is_ok(); let _ = e.extract_subject::<bc_components::Salt>().is_ok(); let _ = e.extract_subject::<bc_components::ARID>().is_ok(); }),
        2 => o!("assertions_with_predicate", e.assertions_with_predicate(arg.clone())),
        3 => o!("assertion_with_predicate", e.assertion_with_predicate(arg.clone()).is_ok()),
        4 => o!("optional_assertion_with_predicate", e.optional_assertion_with_predicate(arg.clone()).is_ok()),
        5 => o!("object_for_predicate", e.object_for_predicate(arg.clone()).is_ok()),
        6 => o!("optional_object_for_predicate", e.optional_object_for_predicate(arg.clone()).is_ok()),
        7 => o!("objects_for_predicate", e.objects_for_predicate(arg.clone())),
        8 => o!("extract_object_for_predicate", { let _ = e.extract_object_for_predicate::<String>(arg.clone()).is_ok(); let _ = e.extract_optional_object_for_predicate::<u64>(arg.clone()).is_ok(); let _ = e.extract_object_for_predicate_with_default::<String>(arg.clone(), "d".into()).is_ok(); let _ = e.extract_objects_for_predicate::<String>(arg.clone()).is_ok(); }),
        9 => o!("try_object_for_predicate", { let _ = e.try_object_for_predicate::<String>(arg.clone()).is_ok(); let _ = e.try_optional_object_for_predicate::<u64>(arg.clone()).is_ok(); let _ = e.try_objects_for_predicate::<String>(arg.clone()).is_ok(); let _ = e.try_as::<String>().is_ok(); }),
        10 => o!("extract_object/extract_predicate", { let _ = e.extract_object::<String>().is_ok(); let _ = e.extract_predicate::<String>().is_ok(); }),
        11 => o!("elements_count/digests", { let _ = (e.elements_count(), e.digests(0), e.digests(1), e.digests(3), e.deep_digests(), e.shallow_digests(), e.structural_digest()); }),
        12 => o!("is_equivalent_to/is_identical_to", { let _ = (e.is_equivalent_to(arg), e.is_identical_to(arg), e == arg, e.is_identical_to(e)); }),
        13 => o!("format", e.format()),
        14 => o!("format_flat", e.format_flat()),
        15 => o!("tree_format", { let _ = e.tree_format(false); let _ = e.tree_format(true); let _ = e.tree_format_with_target(false, &t1); }),
        16 => o!("diagnostic/hex", { let _ = e.diagnostic(); let _ = e.diagnostic_annotated(); let _ = e.hex(); let _ = e.short_id(); }),
        17 => o!("ur_string/cbor", { let u = e.ur_string(); let _ = Envelope::from_ur_string(u).is_ok(); let _ = Envelope::try_from_cbor_data(bytes(e)).is_ok(); let _ = Envelope::from_untagged_cbor(e.untagged_cbor()).is_ok(); }),
        18 => o!("add_assertion_envelope(arg)", e.add_assertion_envelope(arg.clone()).is_ok()),
        19 => o!("add_assertion_envelope_salted(arg)", e.add_assertion_envelope_salted(arg.clone(), true).is_ok()),
        20 => o!("add_assertion_salted", e.add_assertion_salted("sp", "so", true)),
        21 => o!("remove_assertion(arg)", e.remove_assertion(arg.clone())),
        22 => o!("replace_assertion", { let _ = e.replace_assertion(arg.clone(), Envelope::new_assertion("n", "v")).is_ok(); let _ = e.replace_assertion(Envelope::new_assertion("n", "v"), arg.clone()).is_ok(); }),
        23 => o!("replace_subject(arg)", e.replace_subject(arg.clone())),
        24 => o!("wrap/unwrap", { let _ = e.wrap_envelope().unwrap_envelope().is_ok(); let _ = e.unwrap_envelope().is_ok(); }),
        25 => o!("add_salt*", { let _ = e.add_salt(); let _ = e.add_salt_with_len(0).is_ok(); let _ = e.add_salt_with_len(7).is_ok(); let _ = e.add_salt_with_len(8).is_ok(); let _ = e.add_salt_in_range(0..=3).is_ok(); let _ = e.add_salt_in_range(8..=8).is_ok(); let _ = e.add_salt_in_range(20..=10).is_ok(); let mut g = super::c04::seeded_rng(25); let _ = e.add_salt_in_range_using(&(20..=10), &mut g).is_ok(); let _ = e.add_salt_in_range_using(&(usize::MAX..=8), &mut g).is_ok(); let _ = e.add_salt_with_len_using(0, &mut g).is_ok(); let _ = e.add_salt_with_len_using(8, &mut g).is_ok(); let _ = e.add_salt_using(&mut g); }),
        26 => o!("add_type/types", { let x = e.add_type("T"); let _ = (x.types(), x.get_type().is_ok(), x.has_type(&known_values::SEED_TYPE), x.has_type_envelope("T"), x.check_type(&known_values::SEED_TYPE).is_ok(), x.check_type_envelope("T").is_ok()); let _ = (e.types(), e.get_type().is_ok(), e.has_type(&known_values::SEED_TYPE), e.has_type_envelope(arg.clone())); }),
        27 => o!("attachments", { let _ = e.attachments().is_ok(); let _ = e.attachments_with_vendor_and_conforms_to(Some("vendor"), Some("conf")).is_ok(); let _ = e.attachment_with_vendor_and_conforms_to(Some("vendor"), None).is_ok(); let _ = e.attachment_payload().is_ok(); let _ = e.attachment_vendor().is_ok(); let _ = e.attachment_conforms_to().is_ok(); let _ = e.validate_attachment().is_ok(); let _ = Attachments::try_from_envelope(e).is_ok(); }),
        28 => o!("add_attachment", e.add_attachment(arg.clone(), "v", Some("c"))),
        29 => o!("elide", e.elide()),
        30 => o!("elide_removing_set", e.elide_removing_set(&t1)),
        31 => o!("elide_revealing_set", e.elide_revealing_set(&t2)),
        32 => o!("elide_removing_set_with_action(Encrypt)", e.elide_removing_set_with_action(&t2, &ObscureAction::Encrypt(key.clone()))),
        33 => o!("elide_revealing_set_with_action(Encrypt)", e.elide_revealing_set_with_action(&t1, &ObscureAction::Encrypt(key.clone()))),
        34 => o!("elide_removing_set_with_action(Compress)", e.elide_removing_set_with_action(&t2, &ObscureAction::Compress)),
        35 => o!("elide_revealing_set_with_action(Compress)", e.elide_revealing_set_with_action(&t1, &ObscureAction::Compress)),
        36 => o!("elide_removing_target_with_action(arg)", { let _ = e.elide_removing_target_with_action(arg, &ObscureAction::Compress); let _ = e.elide_revealing_target_with_action(arg, &ObscureAction::Compress); let _ = e.elide_removing_array(&[arg, e]); let _ = e.elide_revealing_array(&[e, arg]); }),
        37 => o!("unelide(arg)", e.unelide(arg.clone()).is_ok()),
        38 => o!("compress/uncompress", { let _ = e.compress().is_ok(); let _ = e.uncompress().is_ok(); let _ = e.compress_subject().is_ok(); let _ = e.uncompress_subject().is_ok(); }),
        39 => o!("encrypt_subject/decrypt_subject", { let _ = e.encrypt_subject(&key).is_ok(); let _ = e.decrypt_subject(&key).is_ok(); let _ = e.decrypt_subject(&wrong).is_ok(); let _ = e.decrypt(&key).is_ok(); }),
        40 => o!("encrypt", { let x = e.encrypt(&key); let _ = x.decrypt(&wrong).is_ok(); }),
        41 => o!("add_signature/sign", { let _ = e.add_signature(&sk); let _ = e.sign(&sk); }),
        42 => o!("has_signature_from", { let _ = e.has_signature_from(&pk).is_ok(); let _ = e.has_signature_from_returning_metadata(&pk).is_ok(); }),
        43 => o!("verify_signature_from", { let _ = e.verify_signature_from(&pk).is_ok(); let _ = e.verify_signature_from_returning_metadata(&pk).is_ok(); let _ = e.verify(&pk).is_ok(); let _ = e.verify_returning_metadata(&pk).is_ok(); }),
        44 => o!("has_signatures_from_threshold", { let _ = e.has_signatures_from_threshold(&[&pk], Some(1)).is_ok(); let _ = e.has_signatures_from_threshold(&[&pk], Some(0)).is_ok(); let _ = e.has_signatures_from_threshold(&[], None).is_ok(); let _ = e.verify_signatures_from_threshold(&[&pk, &pk], Some(3)).is_ok(); let _ = e.has_signatures_from(&[&pk]).is_ok(); let _ = e.verify_signatures_from(&[]).is_ok(); }),
        45 => o!("recipients", e.recipients().is_ok()),
        46 => o!("decrypt_subject_to_recipient", { let _ = e.decrypt_subject_to_recipient(&esk).is_ok(); let _ = e.decrypt_to_recipient(&esk).is_ok(); let _ = e.unseal(&pk, &esk).is_ok(); }),
        47 => o!("encrypt_subject_to_recipients", { let _ = e.encrypt_subject_to_recipients(&[&epk]).is_ok(); let _ = e.encrypt_subject_to_recipients(&[]).is_ok(); let _ = e.add_recipient(&epk, &key); }),
        48 => o!("encrypt_to_recipient/seal", { let _ = e.encrypt_to_recipient(&epk); let _ = e.seal(&sk, &epk); }),
        49 => o!("sskr_join", { let _ = Envelope::sskr_join(&[e]).is_ok(); let _ = Envelope::sskr_join(&[e, arg]).is_ok(); let _ = Envelope::sskr_join(&[]).is_ok(); }),
        50 => o!("sskr_split", { let spec = bc_components::SSKRSpec::new(1, vec![bc_components::SSKRGroupSpec::new(2, 3).unwrap()]).unwrap(); if let Ok(groups) = e.sskr_split(&spec, &key) { let flat: Vec<&Envelope> = groups.iter().flatten().collect(); let _ = Envelope::sskr_join(&flat[..2]).is_ok(); let _ = Envelope::sskr_join(&flat[..1]).is_ok(); } }),
        51 => o!("proof_contains_set", { let p = e.proof_contains_set(&t2); if let Some(p) = &p { let _ = e.confirm_contains_set(&t2, p); } let _ = e.proof_contains_target(arg); let _ = e.confirm_contains_target(arg, arg); let _ = e.confirm_contains_set(&t1, arg); }),
        52 => o!("Expression::try_from", { let _ = Expression::try_from(e.clone()).is_ok(); let f = Function::new_named("f"); let _ = Expression::try_from((e.clone(), Some(&f))).is_ok(); let _ = Function::try_from(e.clone()).is_ok(); }),
        53 => o!("Request::try_from", { let r = Request::try_from(e.clone()); if let Ok(r) = r { let _ = r.summary(); let _ = format!("{}", r); let _: Envelope = r.into(); } }),
        54 => o!("Response::try_from", { let r = Response::try_from(e.clone()); if let Ok(r) = r { let _ = r.summary(); let _ = (r.is_ok(), r.id(), r.result().is_ok(), r.error().is_ok(), r.extract_result::<String>().is_ok(), r.extract_error::<String>().is_ok()); let _: Envelope = r.into(); } }),
        55 => o!("Event::try_from", { let r = Event::<String>::try_from(e.clone()); if let Ok(r) = r { let _ = r.summary(); let _: Envelope = r.into(); } let _ = Event::<Envelope>::try_from(e.clone()).is_ok(); }),
        56 => o!("walk", { let v = |_: Envelope, _: usize, _: EdgeType, _: Option<&()>| -> Option<&()> { None }; e.walk(false, &v); e.walk(true, &v); }),
        57 => o!("is_* predicates", { let _ = (e.is_leaf(), e.is_node(), e.is_wrapped(), e.is_known_value(), e.is_assertion(), e.is_encrypted(), e.is_compressed(), e.is_elided(), e.is_subject_assertion(), e.is_subject_encrypted(), e.is_subject_compressed(), e.is_subject_elided(), e.is_subject_obscured(), e.is_internal(), e.is_obscured(), e.is_true(), e.is_false(), e.is_null()); }),
        58 => o!("add_assertions/add_assertion_envelopes", { let a = e.assertions(); let _ = arg.add_assertion_envelopes(&a).is_ok(); let _ = arg.add_assertions(&a); let _ = arg.add_assertions_salted(&a, true); }),
        _ => o!("summary", { let ctx = FormatContext::default(); for n in [0usize, 1, 2, 3, 19, 20, 21, 22, 39, 40, 41, 42, 43, 1000] { let _ = e.summary(n, &ctx); for x in e.assertions() { let _ = x.summary(n, &ctx); if let Some(ob) = x.as_object() { let _ = ob.summary(n, &ctx); } if let Some(pr) = x.as_predicate() { let _ = pr.summary(n, &ctx); } } } let _ = e.format_opt(Some(&ctx)); let _ = e.tree_format_opt(false, Some(&ctx)); let _ = e.hex_opt(true, Some(&ctx)); }),
    }
}

fn sweep() -> R {
    let (name, e) = receiver();
    let (name, e) = (&name, &e);
    let k = choice(N_OPS);
    // argument: a predicate / target / assertion drawn from the receiver itself or well-known values
    let ps = positions(e);
    let args: Vec<Envelope> = {
        let mut v = vec![Envelope::new("p"), Envelope::new(known_values::SIGNED), Envelope::new(known_values::IS_A), Envelope::new_assertion("p", "o"), Envelope::new_assertion("p", "o").add_assertion("k", "v"), Envelope::new("x").elide()];
        for p in ps.iter().take(4) { v.push(p.env.clone()); }
        v
    };
    let uses_arg = matches!(k, 2..=9 | 12 | 18 | 19 | 21 | 22 | 23 | 28 | 36 | 37 | 49 | 51 | 58);
    let arg = if uses_arg { args[choice(args.len())].clone() } else { args[0].clone() };
    let label = run_op(k, e, &arg);
    rt::note(format!("{} on {}", label, name));
    Ok(())
}

pub fn prop() -> Prop {
    Prop {
        id: "C16",
        scenarios: vec![
            Scenario { name: "sweep", f: sweep, thorough_only: false,
                bounds: "receivers: every shape of <=5 (quick) / <=7 (thorough) elements with known values + 30 hand-written shapes + every obscured shape of <=4 (5) elements + 70 envelopes that put junk / elided / decorated / duplicated / wrapped-node objects under each of 14 well-known predicates ('signed', 'hasRecipient', 'sskrShare', 'isA', 'attachment', 'salt', 'note', 'body', 'result', 'error', 'content', 'date', 'vendor', 'conformsTo') + salted and decorated signature / recipient / attachment assertions, obscured subjects, request / response look-alikes, decoder-only shapes x 60 operation groups (every public query, transformation, obscuring, verification and parsing entry point) x arguments drawn from the receiver's own elements and well-known values x every digest order; any panic is a violation",
                api: &["(every public method of Envelope in src/base and src/extension, Expression/Request/Response/Event/Function::try_from, Attachments::try_from_envelope)"] },
        ],
        assumptions: { let mut v = COMMON_ASSUMPTIONS.to_vec(); v.push("builder shortcuts documented to panic on misuse (add_assertions with a non-assertion argument, Response::with_result on a failure) are called only with valid arguments"); v },
    }
}
