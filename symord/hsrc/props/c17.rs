//! C17 Salting decorrelates without changing content (structure part; the length arithmetic is Kani's)
//! C18 Expression, request, response and event envelopes round-trip
//! C19 Attachments and type assertions are retrievable exactly as added
use super::{Prop, COMMON_ASSUMPTIONS};
use crate::engine::{op, Scenario};
use crate::refs::*;
use crate::rt::{self, choice, flag, R};
use crate::spec::{self, *};
use crate::{ensure, must};
use bc_components::{Salt, ARID};
use bc_envelope::prelude::*;
use bc_envelope::EnvelopeError;
use dcbor::prelude::*;

fn bytes(e: &Envelope) -> Vec<u8> { e.tagged_cbor().to_cbor_data() }

// ------------------------------------------------------------------------------------ C17

/// RNG whose range draws are pinned to an extreme (or seeded), and whose data bytes differ per instance
pub struct CtlRng { mode: usize, inner: bc_rand::SeededRandomNumberGenerator, pub data_requests: Vec<usize> }
impl CtlRng { pub fn new(mode: usize, salt: u64) -> Self { CtlRng { mode, inner: bc_rand::SeededRandomNumberGenerator::new([rt::nonce(), salt, 11, 13]), data_requests: vec![] } } }
impl rand::RngCore for CtlRng {
    fn next_u32(&mut self) -> u32 { self.next_u64() as u32 }
    // (Lemire's method rejects a draw of 0 and would loop forever on a constant 0: 1 is the smallest accepted draw and maps to the lower bound)
    fn next_u64(&mut self) -> u64 { match self.mode { 0 => 1, 1 => u64::MAX, _ => self.inner.next_u64() } }
    fn fill_bytes(&mut self, dest: &mut [u8]) { self.data_requests.push(dest.len()); for b in dest.iter_mut() { *b = self.inner.next_u64() as u8; } }
    fn try_fill_bytes(&mut self, dest: &mut [u8]) -> Result<(), rand::Error> { self.fill_bytes(dest); Ok(()) }
}
impl rand::CryptoRng for CtlRng {}
impl bc_rand::RandomNumberGenerator for CtlRng {}

fn salt_assertions(e: &Envelope) -> Vec<Envelope> { e.assertions_with_predicate(known_values::SALT) }
fn salt_len(a: &Envelope) -> Option<usize> { a.subject().as_object().and_then(|o| o.extract_subject::<Salt>().ok()).map(|s| s.len()) }

/// documented range for a serialized size (bc-components Salt::new_for_size): at least 8;
/// between 5% and 25% of the size, the upper end at least 8 above the lower
fn documented_range(size: usize) -> (usize, usize) {
    let min = std::cmp::max(8, (size * 5 + 99) / 100);
    let max = std::cmp::max(min + 8, (size * 25 + 99) / 100);
    (min, max)
}

fn big_envelope(total: usize) -> Envelope {
    // small subject, most of the size in the assertions
    Envelope::new("s").add_assertion("k1", "x".repeat(total / 2)).add_assertion("k2", "y".repeat(total / 2))
}

fn c17_salting() -> R {
    let cat = spec::catalogue(if rt::thorough() { 7 } else { 5 }, true, false, true);
    let nbig = 5;
    let i = choice(cat.len() + nbig);
    let (name, e) = if i < cat.len() { (cat[i].show(), build(&cat[i])) } else { let t = [100usize, 160, 330, 1200, 5000][i - cat.len()]; (format!("big({})", t), big_envelope(t)) };
    // some receivers already carry a salt assertion (an envelope received salted, or salted twice);
    // some are obscured as a whole (elided / compressed / wrapped-and-encrypted) before they are salted
    let e = match choice(5) {
        0 => e.add_salt_instance(Salt::from_data(vec![3u8; 10])),
        1 => e.elide(),
        2 => e.compress().unwrap_or(e),
        3 => e.wrap_envelope().encrypt_subject(&test_key()).unwrap_or(e),
        _ => e,
    };
    let before = bytes(&e);
    let size = before.len();
    let sub_before = bytes(&e.subject());
    let asr_before: Vec<Vec<u8>> = e.assertions().iter().map(bytes).collect();
    let nsalt_before = salt_assertions(&e).len();
    let opk = choice(6);
    let mode = choice(3);
    let mut rng = CtlRng::new(mode, 1);
    rt::note(format!("{} ({} bytes) op {} rng mode {}", name, size, opk, mode));
    let (r, expect): (Envelope, Option<(usize, usize)>) = match opk {
        0 => { op("add_salt_using"); (e.add_salt_using(&mut rng), Some(documented_range(size))) }
        1 => {
            op("add_salt_with_len_using");
            let n = [0usize, 1, 7, 8, 9, 64][choice(6)];
            match e.add_salt_with_len_using(n, &mut rng) {
                Ok(r) => { ensure!(n >= 8, "a salt shorter than 8 bytes was accepted", "requested {}", n); (r, Some((n, n))) }
                Err(_) => { ensure!(n < 8, "a salt length of at least 8 was refused", "requested {}", n); return Ok(()); }
            }
        }
        2 => {
            op("add_salt_in_range_using");
            let (lo, hi) = [(0usize, 20usize), (7, 8), (8, 8), (8, 9), (10, 40), (16, 16), (9, 8), (20, 10), (usize::MAX, 8)][choice(9)];
            match e.add_salt_in_range_using(&(lo..=hi), &mut rng) {
                Ok(r) => { ensure!(lo >= 8, "a salt range starting below 8 bytes was accepted", "{}..={}", lo, hi); ensure!(lo <= hi, "an empty salt range was accepted", "{}..={}", lo, hi); (r, Some((lo, hi))) }
                Err(_) => { ensure!(lo < 8 || lo > hi, "a valid salt range was refused", "{}..={}", lo, hi); return Ok(()); }
            }
        }
        3 => { op("add_salt_instance"); (e.add_salt_instance(Salt::from_data(vec![7u8; 12])), Some((12, 12))) }
        4 => { op("add_salt"); (e.add_salt(), Some(documented_range(size))) }
        _ => { op("add_salt_with_len"); let r = must!(e.add_salt_with_len(20), "add_salt_with_len(20) refused"); ensure!(e.add_salt_with_len(5).is_err(), "a salt shorter than 8 bytes was accepted", ""); (r, Some((20, 20))) }
    };
    ensure!(bytes(&e) == before, "salting altered its receiver", "");
    ensure!(bytes(&r.subject()) == sub_before, "salting changed the subject", "");
    let asr_after = r.assertions();
    ensure!(asr_after.len() == asr_before.len() + 1, "salting must add exactly one assertion", "{} -> {}", asr_before.len(), asr_after.len());
    for b in &asr_before { ensure!(asr_after.iter().any(|x| &bytes(x) == b), "salting changed or dropped an existing assertion", ""); }
    let salts = salt_assertions(&r);
    ensure!(salts.len() == nsalt_before + 1, "exactly one 'salt' assertion must be added", "{} -> {}", nsalt_before, salts.len());
    let newsalt = crate::must_some!(salts.iter().find(|s| !asr_before.contains(&bytes(s))), "new salt assertion not found");
    let len = crate::must_some!(salt_len(newsalt), "the 'salt' assertion does not hold a Salt");
    let (lo, hi) = expect.unwrap();
    ensure!(len >= 8, "salt shorter than 8 bytes", "{}", len);
    ensure!(len >= lo && len <= hi, "salt length outside the documented range", "{} bytes of salt for a serialized size of {} (op {}): range {}..={}", len, size, opk, lo, hi);
    if opk == 0 || opk == 2 {
        // the pinned RNG reaches the ends of the range
        if mode == 0 { ensure!(len == lo, "salt length does not reach the lower end of its range", "{} vs {}", len, lo); }
        if mode == 1 { ensure!(len == hi, "salt length does not reach the upper end of its range", "{} vs {}", len, hi); }
    }
    if let Err(m) = well_formed(&r) { return rt::viol("salted envelope not canonical", m); }
    // independent saltings differ, so their elided forms cannot be matched
    if opk == 0 {
        let r2 = e.add_salt_using(&mut CtlRng::new(mode, 2));
        ensure!(dg(&r2) != dg(&r), "two independent saltings have the same digest", "");
        ensure!(dg(&r2.elide()) != dg(&r.elide()), "elided forms of two saltings can be matched", "");
    }
    if opk == 4 { let r2 = e.add_salt(); ensure!(dg(&r2) != dg(&r), "two independent saltings have the same digest", ""); }
    Ok(())
}

fn c17_salted_assertions() -> R {
    let starts = vec![l(1), k(1001), n(l(1), vec![a(l(2), l(3))]), n(l(1), vec![a(l(50), l(60))]), n(l(1), vec![a(l(2), l(3)), a(l(50), l(60))]), w(l(1)), n(l(1), vec![n(a(l(50), l(60)), vec![a(l(4), l(5))])])];
    let s = &starts[choice(starts.len())];
    let e = build(s);
    let before = bytes(&e);
    // the fact being added: already present (plain / decorated) in some starts; small, or large enough for the proportional rule to matter
    let big = choice(3);
    let (p, o) = if big == 0 { (leaf_text(50), leaf_text(60)) } else { (leaf_text(50), format!("{}{}", leaf_text(60), "z".repeat([0, 400, 3000][big]))) };
    let plain = Envelope::new_assertion(p.clone(), o.clone());
    let had: Vec<Vec<u8>> = e.assertions().iter().map(bytes).collect();
    let had_matches = e.assertions_with_predicate(p.clone()).len();
    let salted = flag();
    let via = choice(3);
    rt::note(format!("{} salted={} via {}", s.show(), salted, via));
    op("add_assertion_salted");
    let r = match via {
        0 => e.add_assertion_salted(p.clone(), o.clone(), salted),
        1 => must!(e.add_assertion_envelope_salted(plain.clone(), salted), "salted add refused a valid assertion"),
        _ => e.add_assertions_salted(&[plain.clone()], salted),
    };
    ensure!(bytes(&e) == before, "salted add altered its receiver", "");
    ensure!(bytes(&r.subject()) == bytes(&e.subject()), "salted add changed the subject", "");
    for b in &had { ensure!(r.assertions().iter().any(|x| &bytes(x) == b), "salted add changed or dropped an existing assertion", ""); }
    let found = r.assertions_with_predicate(p.clone());
    {
        // found by its predicate whatever the obscuration state of the query or of the stored predicate (matching is by digest)
        let pe = Envelope::new(p.clone());
        ensure!(r.assertions_with_predicate(pe.elide()).len() == found.len(), "lookup by the elided form of the predicate finds another number of assertions", "{}", found.len());
        let hidden = r.elide_removing_target(&pe);
        ensure!(hidden.assertions_with_predicate(p.clone()).len() == found.len(), "assertion no longer found by its predicate after the predicate was elided in place", "{}", found.len());
        let packed = r.elide_removing_target_with_action(&pe, &ObscureAction::Compress);
        ensure!(packed.assertions_with_predicate(p.clone()).len() == found.len(), "assertion no longer found by its predicate after the predicate was compressed in place", "{}", found.len());
    }
    if salted {
        ensure!(r.assertions().len() == had.len() + 1, "a salted add must add the assertion", "{} -> {} (the same fact was already present {} times)", had.len(), r.assertions().len(), had_matches);
        ensure!(found.len() == had_matches + 1, "the salted assertion is not found by its predicate", "{} -> {}", had_matches, found.len());
        let new = crate::must_some!(found.iter().find(|x| !had.contains(&bytes(x))), "added assertion not found");
        ensure!(kind(new) == Kind::Node && kind(&new.subject()) == Kind::Assertion, "salted assertion is not an assertion carrying assertions", "{:?}", kind(new));
        ensure!(dg(&new.subject()) == dg(&plain), "salted assertion does not carry the given predicate and object", "");
        let ss = salt_assertions(new);
        ensure!(ss.len() == 1 && new.assertions().len() == 1, "a salted assertion must carry exactly one salt assertion", "{} salt of {} assertions", ss.len(), new.assertions().len());
        let len = crate::must_some!(salt_len(&ss[0]), "the 'salt' assertion does not hold a Salt");
        let (lo, hi) = documented_range(bytes(&plain).len());
        ensure!(len >= lo && len <= hi, "salt length outside the documented range", "{} for assertion of {} bytes", len, bytes(&plain).len());
        // a second, independent salted add of the same fact gives another digest
        let r2 = e.add_assertion_salted(p.clone(), o.clone(), true);
        ensure!(dg(&r2) != dg(&r), "two independent salted adds have the same digest", "");
        let f2 = r2.assertions_with_predicate(p.clone());
        let new2 = crate::must_some!(f2.iter().find(|x| !had.contains(&bytes(x))), "added assertion not found");
        ensure!(dg(new2) != dg(new), "two independently salted assertions can be matched by digest", "");
        ensure!(must!(r.object_for_predicate(p.clone()).or_else(|e| if had_matches > 0 { Ok(Envelope::new(o.clone())) } else { Err(e) }), "object of the salted assertion not retrievable").digest() == Envelope::new(o.clone()).digest(), "object of the salted assertion differs", "");
    } else {
        // deterministic: the same as a plain add
        let want = must!(e.add_assertion_envelope(plain.clone()), "add refused");
        ensure!(bytes(&r) == bytes(&want), "unsalted add differs from a plain add", "");
        let again = e.add_assertion_salted(p.clone(), o.clone(), false);
        ensure!(bytes(&again) == bytes(&r), "unsalted add is not deterministic", "");
    }
    if let Err(m) = well_formed(&r) { return rt::viol("envelope with salted assertion not canonical", m); }
    {
        // objects that a careless guard could take for "no object" (null, false, 0, empty text), and an object that carries a salt of its own
        op("add_assertion_salted (null / false / 0 / empty / already salted object)");
        let objs: Vec<(&str, Envelope)> = vec![("null", Envelope::null()), ("false", Envelope::r#false()), ("0", Envelope::new(0)), ("empty text", Envelope::new("")), ("object with its own salt", Envelope::new(leaf_text(985)).add_salt_instance(Salt::from_data(vec![3u8; 10]))), ("node whose subject is null", Envelope::null().add_assertion(leaf_text(986), leaf_text(987)))];
        let (on, ob) = &objs[(rt::nonce() as usize + had.len() + big + via) % objs.len()];
        let q = leaf_text(988);
        let rn = e.add_assertion_salted(q.clone(), ob.clone(), salted);
        let fq = rn.assertions_with_predicate(q.clone());
        ensure!(fq.len() == 1 && rn.assertions().len() == e.assertions().len() + 1, "a salted-family add of an assertion with an unusual object did not add exactly that assertion", "object {} salted={}: {} found, {} -> {} assertions", on, salted, fq.len(), e.assertions().len(), rn.assertions().len());
        ensure!(dg(&must!(rn.object_for_predicate(q.clone()), "object not retrievable")) == dg(ob), "the added assertion has another object", "object {}", on);
        if salted { ensure!(salt_assertions(&fq[0]).len() == 1, "a salted assertion must carry exactly one salt assertion of its own", "object {}: {}", on, salt_assertions(&fq[0]).len()); }
        else { ensure!(bytes(&rn) == bytes(&e.add_assertion(q.clone(), ob.clone())), "unsalted add differs from a plain add", "object {}", on); }
    }
    if !salted {
        // equal input values give equal envelopes, also when the object is an unordered collection built twice in different orders
        op("add_assertion_salted (unsalted, set / map object)");
        let items: Vec<String> = (0..5).map(|i| leaf_text(980 + i)).collect();
        let s1: std::collections::HashSet<String> = items.iter().cloned().collect();
        let s2: std::collections::HashSet<String> = items.iter().rev().cloned().collect();
        let (x1, x2) = (e.add_assertion_salted(p.clone(), s1, false), e.add_assertion_salted(p.clone(), s2, false));
        ensure!(bytes(&x1) == bytes(&x2), "unsalted add of equal sets gives different envelopes", "");
        let m1: std::collections::HashMap<String, u32> = items.iter().cloned().enumerate().map(|(i, k)| (k, i as u32)).collect();
        let m2: std::collections::HashMap<String, u32> = items.iter().cloned().enumerate().rev().map(|(i, k)| (k, i as u32)).collect();
        let (y1, y2) = (e.add_assertion_salted(p.clone(), m1, false), e.add_assertion_salted(p.clone(), m2, false));
        ensure!(bytes(&y1) == bytes(&y2), "unsalted add of equal maps gives different envelopes", "");
        ensure!(must!(x1.add_assertion_envelope_salted(x2.assertions_with_predicate(p.clone()).into_iter().find(|a| !had.contains(&bytes(a))).unwrap_or(plain.clone()), false), "add refused").assertions().len() == x1.assertions().len(), "an unsalted assertion over an equal set is not recognised as present", "");
    }
    // the optional lookup forms find the salted assertion too
    if had_matches == 0 {
        op("optional_object_for_predicate (salted assertion)");
        let got = must!(r.optional_object_for_predicate(p.clone()), "optional lookup failed");
        ensure!(got.as_ref().map(|x| dg(x)) == Some(dg(&Envelope::new(o.clone()))), "the salted assertion is not found by its predicate through the optional lookup", "{:?}", got.is_some());
        ensure!(must!(r.extract_optional_object_for_predicate::<String>(p.clone()), "optional extraction failed") == Some(o.clone()), "optional extraction does not return the salted assertion's object", "");
        ensure!(must!(r.extract_object_for_predicate_with_default::<String>(p.clone(), "dflt".into()), "extraction with default failed") == o, "extraction with default returns the default although the assertion is present", "");
    }
    // an assertion that already carries assertions (e.g. one fetched from another envelope) can be passed to the salted forms
    op("add_assertion_envelope_salted (assertion that carries assertions)");
    let carried = crate::must_some!(r.assertions_with_predicate(p.clone()).into_iter().next(), "assertion not found");
    let target = Envelope::new(leaf_text(90));
    let moved = must!(target.add_assertion_envelope_salted(carried.clone(), false), "the salted form refused an assertion that carries assertions");
    ensure!(moved.assertions().len() == 1 && dg(&moved.assertions()[0]) == dg(&carried), "the assertion was not carried over unchanged", "");
    let moved2 = must!(target.add_optional_assertion_envelope_salted(Some(carried.clone()), true), "the salted form refused an assertion that carries assertions");
    ensure!(moved2.assertions().len() == 1 && moved2.assertions_with_predicate(p.clone()).len() == 1, "the assertion re-salted is not found by its predicate", "");
    Ok(())
}

// ------------------------------------------------------------------------------------ C18

fn arid(i: u8) -> ARID { let mut d = [i; 32]; d[..8].copy_from_slice(&rt::nonce().to_be_bytes()); ARID::from_data(d) }

fn functions() -> Vec<(&'static str, Function)> {
    vec![
        ("known 1 (add)", functions::ADD), ("known 100 unnamed", Function::new_known(100, None)), ("known 100 named", Function::new_known(100, Some("hundred".to_string()))),
        ("named foo", Function::new_named("foo")), ("static named foo", Function::new_static_named("foo")), ("named add (same text as known add)", Function::new_named("add")), ("named empty", Function::new_named("")), ("named 7 (digits)", Function::new_named("7")),
    ]
}
fn parameters() -> Vec<(&'static str, Parameter)> {
    vec![("known lhs", parameters::LHS), ("known rhs", parameters::RHS), ("known 200", Parameter::new_known(200, None)), ("named p", Parameter::new_named("p")), ("static named p", Parameter::new_static_named("p")), ("named lhs", Parameter::new_named("lhs")), ("named 200 (digits)", Parameter::new_named("200"))]
}
fn values(i: usize) -> Envelope {
    match i { 0 => Envelope::new(rt::nonce() % 1000), 1 => Envelope::new(leaf_text(77)), 2 => build(&n(l(1), vec![a(l(2), l(3))])), 3 => build(&w(l(4))), 4 => Envelope::new(KnownValue::new(9)), 5 => build(&l(5)).elide(), _ => Envelope::new_assertion("x", "y") }
}
fn dates(i: usize) -> Option<dcbor::Date> { match i { 0 => None, 1 => Some(dcbor::Date::from_timestamp(1_700_000_000.0)), 2 => Some(dcbor::Date::from_timestamp(0.5)), _ => Some(dcbor::Date::from_timestamp(-1000.0)) } }

fn mk_expression(fi: usize, np: usize) -> (Expression, Vec<(usize, usize)>) { mk_expression_n(fi, np, 7) }
fn mk_expression_n(fi: usize, np: usize, nvals: usize) -> (Expression, Vec<(usize, usize)>) {
    let fs = functions();
    let ps = parameters();
    let mut e = Expression::new(fs[fi].1.clone());
    let mut used = vec![];
    for _ in 0..np { let pi = choice(ps.len()); let vi = choice(nvals); e = e.with_parameter(ps[pi].1.clone(), values(vi)); used.push((pi, vi)); }
    (e, used)
}

fn c18_expression() -> R {
    let fs = functions();
    let ps = parameters();
    let fi = choice(fs.len());
    let np = choice(4);
    // three parameters: drawn from 2 parameters x 2 values so that distinct entries and repeats both occur
    let (x, used) = if np == 3 {
        let ps = parameters();
        let mut e = Expression::new(fs[fi].1.clone()); let mut used = vec![];
        for _ in 0..3 { let pi = [0usize, 3][choice(2)]; let vi = choice(2); e = e.with_parameter(ps[pi].1.clone(), values(vi)); used.push((pi, vi)); }
        (e, used)
    } else { mk_expression(fi, np) };
    rt::note(format!("function {} params {:?}", fs[fi].0, used));
    op("Expression -> Envelope");
    let env: Envelope = x.clone().into();
    // documented shape: subject = function (tagged #6.40006), one assertion per parameter (#6.40007 predicate)
    ensure!(dg(&env.subject()) == dg(&Envelope::new(fs[fi].1.clone())), "expression subject is not the function", "");
    let sub = crate::must_some!(env.subject().as_leaf(), "expression subject is not a leaf");
    ensure!(matches!(sub.as_case(), CBORCase::Tagged(t, _) if t.value() == 40006), "function not tagged #6.40006", "");
    let mut want: Vec<D> = used.iter().map(|(pi, vi)| dg(&Envelope::new_assertion(ps[*pi].1.clone(), values(*vi)))).collect();
    want.sort(); want.dedup();
    let mut got: Vec<D> = env.assertions().iter().map(dg).collect(); got.sort();
    ensure!(got == want, "expression assertions are not exactly its parameters", "{} vs {}", got.len(), want.len());
    op("Expression::try_from");
    for route in 0..2 {
        let src = if route == 0 { env.clone() } else { must!(Envelope::try_from_cbor_data(bytes(&env)), "decode failed") };
        let back = must!(Expression::try_from(src), "expression does not parse back");
        ensure!(back == x, "parsed expression differs from the original", "function {} route {}", fs[fi].0, route);
        ensure!(back.function() == &fs[fi].1, "parsed function differs", "");
        let e2: Envelope = back.clone().into();
        ensure!(bytes(&e2) == bytes(&env), "re-encoded expression differs", "");
        for (pi, vi) in &used {
            let objs = back.objects_for_parameter(ps[*pi].1.clone());
            ensure!(objs.iter().any(|o| dg(o) == dg(&values(*vi))), "parameter value not retrievable", "{}", ps[*pi].0);
        }
    }
    // accessor forms agree with the parameters that were put in
    op("object_for_parameter / extract_object_for_parameter / with_optional_parameter");
    for (pi, vi) in &used {
        let same_param: Vec<&(usize, usize)> = used.iter().filter(|(q, _)| dg(&Envelope::new(ps[*q].1.clone())) == dg(&Envelope::new(ps[*pi].1.clone()))).collect();
        let distinct_vals: std::collections::HashSet<D> = same_param.iter().map(|(_, v)| dg(&values(*v))).collect();
        let r = x.object_for_parameter(ps[*pi].1.clone());
        if distinct_vals.len() == 1 { ensure!(r.as_ref().map(dg).ok() == Some(dg(&values(*vi))), "object_for_parameter does not return the parameter's value", "{}", ps[*pi].0); }
        else { ensure!(r.is_err(), "object_for_parameter with several values for one parameter must be an error", "{}", ps[*pi].0); }
        ensure!(x.objects_for_parameter(ps[*pi].1.clone()).len() == distinct_vals.len(), "objects_for_parameter returns another number of values", "{}", ps[*pi].0);
        if *vi == 1 && distinct_vals.len() == 1 { ensure!(x.extract_object_for_parameter::<String>(ps[*pi].1.clone()).ok() == Some(leaf_text(77)), "extract_object_for_parameter returned another value", ""); }
    }
    ensure!(x.object_for_parameter(Parameter::new_named("never-used")).is_err(), "object_for_parameter for an absent parameter returned a value", "");
    ensure!(matches!(x.extract_optional_object_for_parameter::<String>(Parameter::new_named("never-used")), Ok(None)), "extract_optional_object_for_parameter for an absent parameter must be Ok(None)", "");
    {
        let with_some: Envelope = x.clone().with_optional_parameter(Parameter::new_named("opt"), Some(5u8)).into();
        let with_plain: Envelope = x.clone().with_parameter(Parameter::new_named("opt"), 5u8).into();
        ensure!(bytes(&with_some) == bytes(&with_plain), "with_optional_parameter(Some) differs from with_parameter", "");
        let with_none: Envelope = x.clone().with_optional_parameter(Parameter::new_named("opt"), None::<u8>).into();
        ensure!(bytes(&with_none) == bytes(&env), "with_optional_parameter(None) changed the expression", "");
    }
    // expected-function check: accepted exactly for an equal function
    op("Expression::try_from((envelope, Some(function)))");
    // (every expected function against expressions with <=1 parameter; the same function and one other beyond)
    let fj = if np <= 1 { choice(fs.len()) } else { [fi, (fi + 3) % fs.len()][choice(2)] };
    let r = Expression::try_from((env.clone(), Some(&fs[fj].1)));
    let same = Envelope::new(fs[fj].1.clone()).digest() == Envelope::new(fs[fi].1.clone()).digest();
    ensure!(r.is_ok() == same, "expected-function check wrong", "have {} expect {}: {}", fs[fi].0, fs[fj].0, r.is_ok());
    // a subject that is not a function
    for bad in [Envelope::new("foo").add_assertion(ps[0].1.clone(), 1), Envelope::new(CBOR::to_tagged_value(40007u64, 1u8)), Envelope::new(KnownValue::new(1))] {
        ensure!(Expression::try_from(bad).is_err(), "a subject that is not a function was parsed as an expression", "");
    }
    Ok(())
}

fn c18_request() -> R {
    let fs = functions();
    let fi = [0usize, 3, 4, 5, 7][choice(5)];
    let (body, _) = mk_expression_n(fi, choice(2), 3);
    let note = ["", "a note", " ", "\t\n"][choice(4)];
    let di = choice(4);
    let mut rq = Request::new_with_body(body.clone(), arid(1));
    if !note.is_empty() || di == 0 { rq = rq.with_note(note); }
    if let Some(d) = dates(di) { rq = rq.with_date(&d); }
    rt::note(format!("request function {} note {:?} date {}", fs[fi].0, note, di));
    {
        // the builder calls commute: metadata first, parameters (plain and optional forms) afterwards
        let mut alt = Request::new(fs[fi].1.clone(), arid(1));
        if !note.is_empty() || di == 0 { alt = alt.with_note(note); }
        if let Some(d) = dates(di) { alt = alt.with_date(&d); }
        let ps = parameters();
        for a in body.expression_envelope().assertions() {
            let pi = (0..ps.len()).find(|i| a.as_predicate().map(|x| dg(&x)) == Some(dg(&Envelope::new(ps[*i].1.clone())))).unwrap();
            alt = alt.with_optional_parameter(ps[pi].1.clone(), a.as_object());
        }
        alt = alt.with_optional_parameter(Parameter::new_named("absent"), None::<u8>);
        ensure!(alt == rq, "building a request in another order gives another request", "note {:?} date {:?} vs note {:?} date {:?}", alt.note(), alt.date(), rq.note(), rq.date());
    }
    op("Request -> Envelope");
    let env: Envelope = rq.clone().into();
    let sub = crate::must_some!(env.subject().as_leaf(), "request subject is not a leaf");
    ensure!(matches!(sub.as_case(), CBORCase::Tagged(t, _) if t.value() == 40004), "request subject not tagged #6.40004", "");
    let nexp = 1 + (!note.is_empty()) as usize + dates(di).is_some() as usize;
    ensure!(env.assertions().len() == nexp, "request envelope has unexpected assertions", "{} vs {}", env.assertions().len(), nexp);
    ensure!(dg(&must!(env.object_for_predicate(known_values::BODY), "no body")) == dg(&Envelope::from(body.clone())), "request body is not the expression", "");
    op("Request::try_from");
    for route in 0..2 {
        let src = if route == 0 { env.clone() } else { must!(Envelope::try_from_cbor_data(bytes(&env)), "decode failed") };
        let back = must!(Request::try_from(src), "request does not parse back");
        ensure!(back == rq, "parsed request differs from the original", "route {}", route);
        ensure!(back.id() == arid(1) && back.note() == note && back.date() == dates(di).as_ref() && back.body() == &body, "parsed request fields differ", "");
        let e2: Envelope = back.into();
        ensure!(bytes(&e2) == bytes(&env), "re-encoded request differs", "");
    }
    // the 'note' / 'date' predicate obscured in place (lookups match predicates by digest): if the request still parses, it
    // parses to the same note and date
    op("Request::try_from (a well-known predicate obscured in place)");
    for kv in [known_values::NOTE, known_values::DATE] {
        let red = if kv == known_values::NOTE { env.elide_removing_target(&Envelope::new(kv.clone())) } else { env.elide_removing_target_with_action(&Envelope::new(kv.clone()), &ObscureAction::Compress) };
        ensure!(dg(&red) == dg(&env), "digest changed by obscuring", "");
        if let Ok(back) = Request::try_from(red) {
            ensure!(back.note() == note && back.date() == dates(di).as_ref(), "request with an obscured 'note' / 'date' predicate parses to another note / date", "obscured '{}': note {:?} date {:?}", kv.name(), back.note(), back.date());
        }
    }
    let canonical = fi == 0 && di == 1 && body.expression_envelope().assertions().is_empty();
    let fj = if canonical { [0usize, 3, 5][choice(3)] } else { fi };
    let same = Envelope::new(fs[fj].1.clone()).digest() == Envelope::new(fs[fi].1.clone()).digest();
    ensure!(Request::try_from((env.clone(), Some(&fs[fj].1))).is_ok() == same, "request accepted with another function than expected (or refused with the right one)", "have {} expect {}", fs[fi].0, fs[fj].0);
    // malformed variants
    op("Request::try_from (malformed)");
    let body_env: Envelope = body.clone().into();
    let bads = vec![
        ("body removed", env.remove_assertion(Envelope::new_assertion(known_values::BODY, body_env.clone()))),
        ("subject retagged as response", env.replace_subject(Envelope::new(CBOR::to_tagged_value(40005u64, arid(1))))),
        ("subject untagged", env.replace_subject(Envelope::new(arid(1)))),
        ("second body", env.add_assertion(known_values::BODY, Envelope::new(Function::new_named("other")))),
        ("body is not an expression", env.remove_assertion(Envelope::new_assertion(known_values::BODY, body_env.clone())).add_assertion(known_values::BODY, "junk")),
        ("note is not text", env.remove_assertion(Envelope::new_assertion(known_values::NOTE, note)).add_assertion(known_values::NOTE, 5)),
    ];
    let (bn, bad) = &bads[if canonical { choice(bads.len()) } else { 0 }];
    ensure!(Request::try_from(bad.clone()).is_err(), "malformed request accepted", "{}", bn);
    Ok(())
}

fn c18_response() -> R {
    let variant = choice(7);
    let vi = choice(7);
    let (rs, label): (Response, &str) = match variant {
        0 => (Response::new_success(arid(2)), "success ok"),
        1 => (Response::new_success(arid(2)).with_result(values(vi)), "success result"),
        2 => (Response::new_failure(arid(2)), "failure default"),
        3 => (Response::new_failure(arid(2)).with_error(values(vi)), "failure error"),
        4 => (Response::new_early_failure(), "early failure default"),
        5 => (Response::new_early_failure().with_error(values(vi)), "early failure error"),
        _ => (Response::new_success(arid(2)).with_optional_result(None::<Envelope>), "success null"),
    };
    rt::note(format!("{} value {}", label, vi));
    op("Response -> Envelope");
    let env: Envelope = rs.clone().into();
    let sub = crate::must_some!(env.subject().as_leaf(), "response subject is not a leaf");
    ensure!(matches!(sub.as_case(), CBORCase::Tagged(t, _) if t.value() == 40005), "response subject not tagged #6.40005", "");
    ensure!(env.assertions().len() == 1, "response envelope must have exactly one assertion", "{}", env.assertions().len());
    let has_result = env.assertion_with_predicate(known_values::RESULT).is_ok();
    let has_error = env.assertion_with_predicate(known_values::ERROR).is_ok();
    ensure!(has_result == rs.is_ok() && has_error == rs.is_err(), "response envelope has the wrong one of result / error", "");
    op("Response::try_from");
    for route in 0..2 {
        let src = if route == 0 { env.clone() } else { must!(Envelope::try_from_cbor_data(bytes(&env)), "decode failed") };
        let back = must!(Response::try_from(src), "response does not parse back");
        ensure!(back == rs, "parsed response differs from the original", "{} route {}", label, route);
        ensure!(back.is_ok() == rs.is_ok() && back.id() == rs.id(), "parsed response fields differ", "");
        if rs.is_ok() { ensure!(dg(must!(back.result(), "no result")) == dg(must!(rs.result(), "no result")), "parsed result differs", ""); }
        else { ensure!(dg(must!(back.error(), "no error")) == dg(must!(rs.error(), "no error")), "parsed error differs", ""); }
        let e2: Envelope = back.into();
        ensure!(bytes(&e2) == bytes(&env), "re-encoded response differs", "{}", label);
    }
    op("Response accessors");
    {
        ensure!(rs.is_ok() != rs.is_err() && rs.ok().is_some() == rs.is_ok() && rs.err().is_some() == rs.is_err(), "is_ok / is_err / ok / err disagree", "");
        ensure!(rs.result().is_ok() == rs.is_ok() && rs.error().is_ok() == rs.is_err(), "result() / error() available on the wrong variant", "");
        if (variant == 1 || variant == 3 || variant == 5) && vi == 1 {
            let got = if rs.is_ok() { rs.extract_result::<String>() } else { rs.extract_error::<String>() };
            ensure!(got.ok() == Some(leaf_text(77)), "extract_result / extract_error returned another value", "{}", label);
            ensure!(if rs.is_ok() { rs.extract_error::<String>().is_err() } else { rs.extract_result::<String>().is_err() }, "extract on the wrong variant returned a value", "");
        }
        ensure!((variant == 4 || variant == 5) == rs.id().is_none(), "id() wrong", "{}", label);
        let oe: Envelope = Response::new_failure(arid(2)).with_optional_error(None::<Envelope>).into();
        let pe: Envelope = Response::new_failure(arid(2)).into();
        ensure!(bytes(&oe) == bytes(&pe), "with_optional_error(None) changed the response", "");
    }
    // a response that carries one further, unrelated assertion (wherever the hash sorts it): if it parses at all,
    // it parses to the same identifier and payload, never to the other assertion's object
    op("Response::try_from (with an unrelated assertion)");
    {
        let noted = env.add_assertion(leaf_text(940), leaf_text(941));
        for route in 0..2 {
            let src = if route == 0 { noted.clone() } else { must!(Envelope::try_from_cbor_data(bytes(&noted)), "decode failed") };
            if let Ok(back) = Response::try_from(src) {
                ensure!(back.is_ok() == rs.is_ok() && back.id() == rs.id(), "response with an unrelated assertion parses to another variant / identifier", "{}", label);
                if rs.is_ok() { ensure!(dg(must!(back.result(), "no result")) == dg(must!(rs.result(), "no result")), "response with an unrelated assertion parses to another result", "{} route {}", label, route); }
                else { ensure!(dg(must!(back.error(), "no error")) == dg(must!(rs.error(), "no error")), "response with an unrelated assertion parses to another error", "{} route {}", label, route); }
            }
        }
    }
    op("Response::try_from (malformed)");
    let the = env.assertions()[0].clone();
    let bads = vec![
        ("both result and error", if has_result { env.add_assertion(known_values::ERROR, "e") } else { env.add_assertion(known_values::RESULT, "r") }),
        ("both result and error, the extra one's predicate elided", if has_result { env.add_assertion(known_values::ERROR, "e").elide_removing_target(&Envelope::new(known_values::ERROR)) } else { env.add_assertion(known_values::RESULT, "r").elide_removing_target(&Envelope::new(known_values::RESULT)) }),
        ("both result and error, the extra one carrying an assertion", if has_result { env.add_assertion_envelope(Envelope::new_assertion(known_values::ERROR, "e").add_assertion("k", "v")).unwrap() } else { env.add_assertion_envelope(Envelope::new_assertion(known_values::RESULT, "r").add_assertion("k", "v")).unwrap() }),
        ("neither result nor error", env.remove_assertion(the.clone()).add_assertion("other", 1)),
        ("bare subject", env.subject()),
        ("two results", env.remove_assertion(the.clone()).add_assertion(known_values::RESULT, 1).add_assertion(known_values::RESULT, 2)),
        ("subject retagged as request", env.replace_subject(Envelope::new(CBOR::to_tagged_value(40004u64, arid(2))))),
        ("subject untagged", env.replace_subject(Envelope::new(arid(2)))),
        ("result with an unknown-value subject other than 'Unknown'", Envelope::new(CBOR::to_tagged_value(40005u64, KnownValue::new(5))).add_assertion(known_values::ERROR, "e")),
        ("success with 'Unknown' id", Envelope::new(CBOR::to_tagged_value(40005u64, known_values::UNKNOWN_VALUE)).add_assertion(known_values::RESULT, "r")),
        ("failure whose subject holds the bare number of 'Unknown' instead of the known value", Envelope::new(CBOR::to_tagged_value(40005u64, known_values::UNKNOWN_VALUE.value())).add_assertion(known_values::ERROR, "e")),
        ("failure whose subject holds another bare number", Envelope::new(CBOR::to_tagged_value(40005u64, 5u64)).add_assertion(known_values::ERROR, "e")),
        ("failure whose subject holds text", Envelope::new(CBOR::to_tagged_value(40005u64, "id")).add_assertion(known_values::ERROR, "e")),
    ];
    let (bn, bad) = &bads[choice(bads.len())];
    ensure!(Response::try_from(bad.clone()).is_err(), "malformed response accepted", "{} ({})", bn, label);
    Ok(())
}

fn c18_event() -> R {
    let note = ["", "a note", " "][choice(3)];
    let di = choice(4);
    let ci = choice(5);
    op("Event -> Envelope");
    macro_rules! run { ($t:ty, $content:expr, $cenv:expr) => {{
        let mut ev = Event::<$t>::new($content, arid(3));
        if !note.is_empty() { ev = ev.with_note(note); }
        if let Some(d) = dates(di) { ev = ev.with_date(&d); }
        let env: Envelope = ev.clone().into();
        let sub = crate::must_some!(env.subject().as_leaf(), "event subject is not a leaf");
        ensure!(matches!(sub.as_case(), CBORCase::Tagged(t, _) if t.value() == 40026), "event subject not tagged #6.40026", "");
        let nexp = 1 + (!note.is_empty()) as usize + dates(di).is_some() as usize;
        ensure!(env.assertions().len() == nexp, "event envelope has unexpected assertions", "{} vs {}", env.assertions().len(), nexp);
        ensure!(dg(&must!(env.object_for_predicate(known_values::CONTENT), "no content")) == dg(&$cenv), "event content differs", "");
        op("Event::try_from");
        for route in 0..2 {
            let src = if route == 0 { env.clone() } else { must!(Envelope::try_from_cbor_data(bytes(&env)), "decode failed") };
            let back = must!(Event::<$t>::try_from(src), "event does not parse back");
            ensure!(back == ev, "parsed event differs from the original", "route {}", route);
            ensure!(back.id() == arid(3) && back.note() == note && back.date() == dates(di).as_ref(), "parsed event fields differ", "");
            let e2: Envelope = back.into();
            ensure!(bytes(&e2) == bytes(&env), "re-encoded event differs", "");
        }
        op("Event::try_from (a well-known predicate obscured in place)");
        for kv in [known_values::NOTE, known_values::DATE] {
            let red = if kv == known_values::DATE { env.elide_removing_target(&Envelope::new(kv.clone())) } else { env.elide_removing_target_with_action(&Envelope::new(kv.clone()), &ObscureAction::Compress) };
            if let Ok(back) = Event::<$t>::try_from(red) {
                ensure!(back.note() == note && back.date() == dates(di).as_ref(), "event with an obscured 'note' / 'date' predicate parses to another note / date", "obscured '{}'", kv.name());
            }
        }
        op("Event::try_from (malformed)");
        let bads = vec![
            ("content removed", env.remove_assertion(Envelope::new_assertion(known_values::CONTENT, $cenv))),
            ("subject retagged", env.replace_subject(Envelope::new(CBOR::to_tagged_value(40004u64, arid(3))))),
            ("two contents", env.add_assertion(known_values::CONTENT, "second")),
            ("date is not a date", env.add_assertion(known_values::DATE, "yesterday").remove_assertion(Envelope::new_assertion(known_values::DATE, dates(di).unwrap_or(dcbor::Date::from_timestamp(1.0))))),
        ];
        let (bn, bad) = &bads[choice(bads.len())];
        ensure!(Event::<$t>::try_from(bad.clone()).is_err(), "malformed event accepted", "{}", bn);
    }}; }
    rt::note(format!("event content {} note {:?} date {}", ci, note, di));
    match ci {
        0 => run!(String, "content text".to_string(), Envelope::new("content text")),
        1 => run!(String, String::new(), Envelope::new("")),
        2 => { let c = build(&n(l(1), vec![a(l(2), l(3)), a(l(4), l(5))])); run!(Envelope, c.clone(), c) }
        3 => { let c = build(&w(n(l(1), vec![a(l(2), l(3))]))); run!(Envelope, c.clone(), c) }
        _ => { let c = build(&n(w(l(1)), vec![a(l(2), l(3))])); run!(Envelope, c.clone(), c) }
    }
    Ok(())
}

// ------------------------------------------------------------------------------------ C19

fn c19_attachments() -> R {
    let vendors = ["com.example", "org.other"];
    let confs: [Option<&str>; 3] = [None, Some("https://example.com/v1"), Some("https://example.com/v2")];
    let payloads = |i: usize| -> Envelope { match i { 0 => Envelope::new(leaf_text(88)), 1 => build(&n(l(1), vec![a(l(2), l(3)), a(l(4), l(5))])), 2 => build(&w(l(6))), 3 => Envelope::new(KnownValue::new(33)), 4 => Envelope::new(leaf_text(89)).elide(), _ => build(&co(n(l(7), vec![a(l(8), l(9))]))) } };
    let natt = 1 + choice(3);
    let mut atts: Vec<(usize, usize, usize)> = vec![];
    // (bounded: the payload varies for a single attachment; with several, the later ones vary in vendor / conformsTo only)
    for i in 0..natt { atts.push((if natt == 1 { choice(6) } else { [0, 2, 3][i] }, if i < 2 { choice(2) } else { 0 }, if i < 2 { choice(3) } else { choice(2) })); }
    let base = match choice(2) { 0 => build(&l(10)), _ => build(&n(l(10), vec![a(l(11), l(12))])) };
    let mut e = base.clone();
    op("add_attachment");
    for (p, v, c) in &atts { e = e.add_attachment(payloads(*p), vendors[*v], confs[*c]); }
    let mut distinct = atts.clone(); distinct.sort(); distinct.dedup();
    rt::note(format!("attachments {:?}", atts));
    op("attachments");
    let got = must!(e.attachments(), "attachments() failed on well-formed attachments");
    ensure!(got.len() == distinct.len(), "attachments() does not return exactly the added attachments", "{} vs {}", got.len(), distinct.len());
    for (p, v, c) in &distinct {
        let want = Envelope::new_attachment(payloads(*p), vendors[*v], confs[*c]);
        let g = crate::must_some!(got.iter().find(|x| dg(*x) == dg(&want)), "an added attachment is not returned");
        ensure!(bytes(&must!(g.attachment_payload(), "payload")) == bytes(&payloads(*p)), "attachment payload differs", "");
        ensure!(must!(g.attachment_vendor(), "vendor") == vendors[*v], "attachment vendor differs", "");
        ensure!(must!(g.attachment_conforms_to(), "conformsTo").as_deref() == confs[*c], "attachment conformsTo differs", "");
        ensure!(g.validate_attachment().is_ok(), "a well-formed attachment does not validate", "");
    }
    // every filter combination
    let fv = choice(3); // None, vendor 0, vendor 1
    let fc = choice(4); // None, conf 1, conf 2, an unknown conf
    let vfil: Option<&str> = match fv { 0 => None, i => Some(vendors[i - 1]) };
    let cfil: Option<&str> = match fc { 0 => None, 1 => confs[1], 2 => confs[2], _ => Some("https://nowhere") };
    let want: Vec<&(usize, usize, usize)> = distinct.iter().filter(|(_, v, c)| vfil.map_or(true, |f| vendors[*v] == f) && cfil.map_or(true, |f| confs[*c] == Some(f))).collect();
    op("attachments_with_vendor_and_conforms_to");
    let got = must!(e.attachments_with_vendor_and_conforms_to(vfil, cfil), "filtered query failed");
    ensure!(got.len() == want.len(), "filter does not return exactly the matching attachments", "vendor {:?} conformsTo {:?}: {} vs {} of {:?}", vfil, cfil, got.len(), want.len(), distinct);
    for (p, v, c) in &want { let w = Envelope::new_attachment(payloads(*p), vendors[*v], confs[*c]); ensure!(got.iter().any(|x| dg(x) == dg(&w)), "a matching attachment is missing from the filtered result", ""); }
    op("attachment_with_vendor_and_conforms_to");
    let single = e.attachment_with_vendor_and_conforms_to(vfil, cfil);
    match want.len() {
        0 => ensure!(matches!(single.as_ref().err().and_then(|x| x.downcast_ref::<EnvelopeError>()), Some(EnvelopeError::NonexistentAttachment)), "no match must be NonexistentAttachment", ""),
        1 => ensure!(single.is_ok(), "single match not returned", ""),
        _ => ensure!(matches!(single.as_ref().err().and_then(|x| x.downcast_ref::<EnvelopeError>()), Some(EnvelopeError::AmbiguousAttachment)), "several matches must be AmbiguousAttachment", ""),
    }
    // the 'attachment' predicate obscured in place: the attachments are still found (matching is by digest)
    op("attachments (the 'attachment' predicate obscured in place)");
    {
        let red = if natt % 2 == 1 { e.elide_removing_target(&Envelope::new(known_values::ATTACHMENT)) } else { e.elide_removing_target_with_action(&Envelope::new(known_values::ATTACHMENT), &ObscureAction::Compress) };
        ensure!(dg(&red) == dg(&e), "digest changed by obscuring", "");
        let got = must!(red.attachments(), "attachments() failed after the 'attachment' predicate was obscured");
        ensure!(got.len() == distinct.len(), "attachments() no longer returns the added attachments after the 'attachment' predicate was obscured", "{} vs {}", got.len(), distinct.len());
        // a payload obscured in place after it was added: the attachment is still returned, with the same (now obscured) payload
        let (p0, _, _) = distinct[0];
        let red3 = e.elide_removing_target(&payloads(p0));
        let got3 = must!(red3.attachments(), "attachments() failed after a payload was elided in place");
        ensure!(got3.len() == distinct.len(), "attachments() no longer returns the added attachments after a payload was elided in place", "{} vs {}", got3.len(), distinct.len());
        for g in &got3 { ensure!(g.attachment_payload().is_ok(), "attachment_payload fails on an attachment whose payload is obscured", ""); }
        let red2 = e.elide_removing_target(&Envelope::new(known_values::VENDOR));
        if let Ok(got2) = red2.attachments_with_vendor_and_conforms_to(Some(vendors[distinct[0].1]), None) { ensure!(got2.len() == distinct.iter().filter(|(_, v, _)| *v == distinct[0].1).count(), "vendor filter returns another set after the 'vendor' predicate was obscured", "{}", got2.len()); }
    }
    // other assertions and the subject are untouched; Attachments container agrees
    ensure!(bytes(&e.subject()) == bytes(&base.subject()), "add_attachment changed the subject", "");
    // a container holding one attachment the envelope already carries: merging it back changes nothing
    {
        let (p0, v0, c0) = distinct[0];
        let mut one = Attachments::new();
        one.add(payloads(p0), vendors[v0], confs[c0]);
        let merged = one.add_to_envelope(e.clone());
        ensure!(bytes(&merged) == bytes(&e), "merging a container whose attachment is already present changed the envelope", "");
        let onto_base = one.add_to_envelope(base.clone());
        ensure!(must!(onto_base.attachments(), "attachments() failed").len() == 1, "container attachment not added", "");
    }
    let cont = must!(Attachments::try_from_envelope(&e), "Attachments::try_from_envelope failed");
    ensure!(!cont.is_empty(), "Attachments container empty", "");
    for (p, v, c) in &distinct { let w = Envelope::new_attachment(payloads(*p), vendors[*v], confs[*c]); ensure!(cont.get(&w.digest()).is_some(), "Attachments container lacks an attachment", ""); }
    Ok(())
}

/// the Attachments container as another route to the same envelope: every list of 1..3 attachments that may share the
/// payload and differ only in vendor / conformsTo (or be exact repeats), collected in any order
pub fn c19_container() -> R {
    let vendors = ["com.example", "org.other"];
    let confs: [Option<&str>; 3] = [None, Some("https://example.com/v1"), Some("")];
    let payloads = |i: usize| -> Envelope { match i { 0 => Envelope::new(leaf_text(88)), _ => build(&n(l(1), vec![a(l(2), l(3))])) } };
    let natt = 1 + choice(3);
    let mut atts: Vec<(usize, usize, usize)> = vec![];
    // (bounded: with three attachments the later ones vary less)
    for i in 0..natt {
        let full = i == 0 || (i == 1 && natt == 2);
        atts.push((if i < 2 { choice(2) } else { 0 }, if full { choice(2) } else { 0 }, if full { choice(3) } else { [0usize, 2][choice(2)] }));
    }
    let base = match choice(2) { 0 => build(&l(10)), _ => build(&n(l(10), vec![a(l(11), l(12))])) };
    let mut direct = base.clone();
    op("add_attachment");
    for (p, v, c) in &atts { direct = direct.add_attachment(payloads(*p), vendors[*v], confs[*c]); }
    let mut distinct = atts.clone(); distinct.sort(); distinct.dedup();
    rt::note(format!("container {:?}", atts));
    // the same attachments added as plain assertions (the generic API): add_attachment must agree with it. (This also
    // relates all attachment assertions to each other in a fixed order before the container - a HashMap, iterated in
    // random order - adds them.)
    op("add_assertion_envelope(new_attachment)");
    let mut generic = base.clone();
    for (p, v, c) in &atts { generic = must!(generic.add_assertion_envelope(Envelope::new_attachment(payloads(*p), vendors[*v], confs[*c])), "add refused"); }
    ensure!(bytes(&generic) == bytes(&direct), "add_attachment differs from adding the attachment assertion itself", "{:?}", atts);
    op("Attachments::add / add_to_envelope");
    let mut cont = Attachments::new();
    let order = rt::perm(atts.len());
    for &i in &order { let (p, v, c) = atts[i]; cont.add(payloads(p), vendors[v], confs[c]); }
    for (p, v, c) in &distinct {
        let w = Envelope::new_attachment(payloads(*p), vendors[*v], confs[*c]);
        let g = crate::must_some!(cont.get(&w.digest()), "container lacks an attachment that was added to it");
        ensure!(bytes(g) == bytes(&w), "container returns another attachment than the one added", "");
        ensure!(must!(g.attachment_conforms_to(), "conformsTo").as_deref() == confs[*c] && must!(g.attachment_vendor(), "vendor") == vendors[*v], "attachment held by the container has another vendor / conformsTo than given", "{:?} {:?}", vendors[*v], confs[*c]);
    }
    let via = cont.add_to_envelope(base.clone());
    ensure!(bytes(&via) == bytes(&direct), "envelope built through the Attachments container differs from add_attachment one by one", "{:?} collected in order {:?}", atts, order);
    let got = must!(via.attachments(), "attachments() failed");
    ensure!(got.len() == distinct.len(), "attachments() does not return exactly the attachments the container held", "{} vs {}", got.len(), distinct.len());
    op("Attachments::try_from_envelope");
    let back = must!(Attachments::try_from_envelope(&direct), "Attachments::try_from_envelope failed");
    let again = back.add_to_envelope(base.clone());
    ensure!(bytes(&again) == bytes(&direct), "container read from an envelope does not rebuild it", "");
    op("Attachments::remove");
    let (p0, v0, c0) = distinct[0];
    let w0 = Envelope::new_attachment(payloads(p0), vendors[v0], confs[c0]);
    let removed = crate::must_some!(cont.remove(&w0.digest()), "remove of a held attachment returned nothing");
    ensure!(bytes(&removed) == bytes(&w0), "remove returned another attachment", "");
    let rest = cont.add_to_envelope(base.clone());
    ensure!(must!(rest.attachments(), "attachments() failed").len() == distinct.len() - 1, "remove took out more or less than one attachment", "");
    ensure!(cont.is_empty() == (distinct.len() == 1), "is_empty wrong", "");
    Ok(())
}

fn c19_malformed() -> R {
    let good = Envelope::new_attachment("payload", "com.example", Some("https://example.com/v1"));
    let obj = good.as_object().unwrap();
    let vendor_a = Envelope::new_assertion(known_values::VENDOR, "com.example");
    let conf_a = Envelope::new_assertion(known_values::CONFORMS_TO, "https://example.com/v1");
    let bads: Vec<(&str, Envelope)> = vec![
        ("vendor removed", Envelope::new_assertion(known_values::ATTACHMENT, obj.remove_assertion(vendor_a.clone()))),
        ("vendor duplicated", Envelope::new_assertion(known_values::ATTACHMENT, obj.add_assertion(known_values::VENDOR, "second.vendor"))),
        ("vendor not text", Envelope::new_assertion(known_values::ATTACHMENT, obj.remove_assertion(vendor_a.clone()).add_assertion(known_values::VENDOR, 5))),
        ("conformsTo duplicated", Envelope::new_assertion(known_values::ATTACHMENT, obj.add_assertion(known_values::CONFORMS_TO, "https://second"))),
        ("conformsTo not text", Envelope::new_assertion(known_values::ATTACHMENT, obj.remove_assertion(conf_a.clone()).add_assertion(known_values::CONFORMS_TO, 7))),
        ("payload not wrapped", Envelope::new_assertion(known_values::ATTACHMENT, Envelope::new("payload").add_assertion(known_values::VENDOR, "com.example"))),
        ("extra assertion on the object", Envelope::new_assertion(known_values::ATTACHMENT, obj.add_assertion("extra", "field"))),
        ("object is a bare leaf", Envelope::new_assertion(known_values::ATTACHMENT, "junk")),
        ("vendor value carries an assertion of its own", Envelope::new_assertion(known_values::ATTACHMENT, obj.remove_assertion(vendor_a.clone()).add_assertion(known_values::VENDOR, Envelope::new("com.example").add_assertion("note", "x")))),
        ("conformsTo value carries an assertion of its own", Envelope::new_assertion(known_values::ATTACHMENT, obj.remove_assertion(conf_a.clone()).add_assertion(known_values::CONFORMS_TO, Envelope::new("https://example.com/v1").add_assertion("note", "x")))),
    ];
    let (bn, bad) = &bads[choice(bads.len())];
    rt::note(*bn);
    op("validate_attachment (malformed)");
    ensure!(bad.validate_attachment().is_err(), "malformed attachment validates", "{}", bn);
    let host = Envelope::new("host").add_assertion_envelope(bad.clone()).unwrap();
    let with_good = if flag() { host.add_assertion_envelope(good.clone()).unwrap() } else { host.clone() };
    op("attachments (malformed present)");
    let r = with_good.attachments();
    ensure!(matches!(r.as_ref().err().and_then(|x| x.downcast_ref::<EnvelopeError>()), Some(EnvelopeError::InvalidAttachment)) || r.is_err(), "a malformed attachment assertion is not reported invalid", "{}: {:?}", bn, r.as_ref().map(|v| v.len()).ok());
    ensure!(good.validate_attachment().is_ok(), "well-formed attachment does not validate", "");
    // ... whatever the filter: a filter that would not select the malformed one must not hide it
    op("attachments_with_vendor_and_conforms_to (malformed present, filtered out)");
    for (v, c) in [(Some("no.such.vendor"), None), (None, Some("https://nowhere")), (Some("com.example"), Some("https://example.com/v1"))] {
        ensure!(with_good.attachments_with_vendor_and_conforms_to(v, c).is_err(), "a malformed attachment assertion is not reported invalid under a filter", "{} with filter {:?}/{:?}", bn, v, c);
        ensure!(with_good.attachment_with_vendor_and_conforms_to(v, c).is_err(), "a malformed attachment assertion is not reported invalid under a filter", "{} single-result form", bn);
    }
    Ok(())
}

fn c19_types() -> R {
    let pool: Vec<(&str, Envelope)> = vec![
        ("known Seed", Envelope::new(known_values::SEED_TYPE)), ("known PrivateKey", Envelope::new(known_values::PRIVATE_KEY_TYPE)), ("known 9999+", Envelope::new(KnownValue::new(9999 + rt::nonce() % 500))),
        ("text Person", Envelope::new(format!("Person{}", rt::nonce() % 997))), ("text Seed (same text as the known value's name)", Envelope::new("Seed")), ("integer 7777", Envelope::new(7777u16)),
        ("annotated Person", Envelope::new(format!("Person{}", rt::nonce() % 997)).add_assertion("version", 2)), ("wrapped Person", Envelope::new(format!("Person{}", rt::nonce() % 997)).wrap_envelope()),
    ];
    let added = rt::subset(pool.len());
    rt::assume(added.iter().filter(|x| **x).count() <= 3)?;
    let base = match choice(2) { 0 => build(&l(10)), _ => build(&n(l(10), vec![a(l(11), l(12))])) };
    let mut e = base.clone();
    op("add_type");
    for (i, (_, t)) in pool.iter().enumerate() { if added[i] { e = e.add_type(t.clone()); } }
    rt::note(format!("types {:?}", added));
    let nadded = added.iter().filter(|x| **x).count();
    op("types");
    ensure!(e.types().len() == nadded, "types() does not return exactly the added types", "{} vs {}", e.types().len(), nadded);
    for (i, (name, t)) in pool.iter().enumerate() {
        op("has_type_envelope");
        ensure!(e.has_type_envelope(t.clone()) == added[i], "has_type_envelope wrong", "{}: added={} reported={}", name, added[i], !added[i]);
        ensure!(e.check_type_envelope(t.clone()).is_ok() == added[i], "check_type_envelope wrong", "{}", name);
    }
    op("has_type");
    for (i, kv) in [(0usize, known_values::SEED_TYPE), (1, known_values::PRIVATE_KEY_TYPE), (2, KnownValue::new(9999 + rt::nonce() % 500))] {
        ensure!(e.has_type(&kv) == added[i], "has_type wrong", "{}", pool[i].0);
        ensure!(e.check_type(&kv).is_ok() == added[i], "check_type wrong", "{}", pool[i].0);
    }
    ensure!(!e.has_type(&KnownValue::new(7777)), "has_type(known 7777) true although only the integer 7777 could have been added", "");
    op("get_type");
    let g = e.get_type();
    if nadded == 1 { let i = added.iter().position(|x| *x).unwrap(); ensure!(g.as_ref().map(dg).ok() == Some(dg(&pool[i].1)), "get_type does not return the single type", ""); }
    else { ensure!(g.is_err(), "get_type must fail unless there is exactly one type", "{} types", nadded); }
    ensure!(bytes(&e.subject()) == bytes(&base.subject()), "add_type changed the subject", "");
    // the 'isA' predicate obscured in place: the types are still reported (matching is by digest)
    op("types / has_type_envelope (the 'isA' predicate obscured in place)");
    if nadded > 0 {
        let red = if nadded % 2 == 1 { e.elide_removing_target(&Envelope::new(known_values::IS_A)) } else { e.elide_removing_target_with_action(&Envelope::new(known_values::IS_A), &ObscureAction::Compress) };
        ensure!(dg(&red) == dg(&e), "digest changed by obscuring", "");
        ensure!(red.types().len() == nadded, "types() no longer returns the added types after the 'isA' predicate was obscured", "{} vs {}", red.types().len(), nadded);
        for (i, (name, t)) in pool.iter().enumerate() { ensure!(red.has_type_envelope(t.clone()) == added[i], "has_type_envelope wrong after the 'isA' predicate was obscured", "{}", name); }
    }
    Ok(())
}

pub fn prop_c17() -> Prop {
    Prop {
        id: "C17",
        scenarios: vec![
            Scenario { name: "salting", f: c17_salting, thorough_only: false,
                bounds: "every shape of <=5 (quick) / <=7 (thorough) elements + 30 hand-written shapes + 5 envelopes of 100..5000 bytes whose size sits in the assertions x {add_salt_using, add_salt_with_len_using(0,1,7,8,9,64), add_salt_in_range_using(9 ranges, 3 of them empty (start > end)), add_salt_instance, add_salt, add_salt_with_len} x RNG whose range draws are pinned to 0 / u64::MAX / seeded x every digest order; length checked against the documented range computed from the real serialized size",
                api: &["add_salt", "add_salt_using", "add_salt_with_len", "add_salt_with_len_using", "add_salt_in_range_using", "add_salt_instance"] },
            Scenario { name: "salted_assertions", f: c17_salted_assertions, thorough_only: false,
                bounds: "(each path also adds an assertion whose object is one of 6 unusual values - null, false, 0, empty text, an object carrying its own salt, a node whose subject is null - rotating with the path and the seed) 7 starting envelopes (bare, with other assertions, already holding the same fact plainly or decorated) x salted / unsalted x {add_assertion_salted, add_assertion_envelope_salted, add_assertions_salted} x every digest order",
                api: &["add_assertion_salted", "add_assertion_envelope_salted", "add_assertions_salted", "assertions_with_predicate"] },
        ],
        assumptions: { let mut v = COMMON_ASSUMPTIONS.to_vec(); v.push("quality of the system RNG is outside; the Kani harness decides the length arithmetic of the dependency for all sizes and RNG outputs within its stated windows"); v },
    }
}

pub fn prop_c18() -> Prop {
    Prop {
        id: "C18",
        scenarios: vec![
            Scenario { name: "expression", f: c18_expression, thorough_only: false,
                bounds: "8 functions (known named / unnamed, named, static named, named with the text of a known one, empty name, all-digit name) x 0..2 parameters out of 7 (known, named, static named, named with a known one's text, all-digit name; repeats allowed) or 3 parameters out of 2 x 2 values (distinct entries followed by a repeat) x 7 value envelopes (leaf, node, wrapped, known value, elided, assertion) x expected-function check against each of the 7 functions x direct and through bytes x every digest order; 3 non-function subjects. Values are a catalogue",
                api: &["Expression::new", "with_parameter", "From<Expression> for Envelope", "TryFrom<Envelope> for Expression", "TryFrom<(Envelope, Option<&Function>)>", "objects_for_parameter"] },
            Scenario { name: "request", f: c18_request, thorough_only: false,
                bounds: "4 functions x 0..1 parameters (3 values) x note absent / empty / non-empty x date absent / integral / fractional / negative x expected function and 6 malformed variants on the canonical request (body removed / doubled / not an expression, subject retagged / untagged, note not text) x every digest order",
                api: &["Request::new_with_body", "with_note", "with_date", "From<Request> for Envelope", "TryFrom<Envelope> for Request", "TryFrom<(Envelope, Option<&Function>)> for Request"] },
            Scenario { name: "response", f: c18_response, thorough_only: false,
                bounds: "7 response variants (ok, result, failure default / with error, early failure default / with error, null result) x 7 value envelopes x 9 malformed variants (both, both with the extra one decorated, neither, bare subject, two results, retagged, untagged, wrong known-value subject, success with 'Unknown' id) x every digest order",
                api: &["Response::new_success", "new_failure", "new_early_failure", "with_result", "with_error", "From<Response> for Envelope", "TryFrom<Envelope> for Response"] },
            Scenario { name: "event", f: c18_event, thorough_only: false,
                bounds: "5 contents (text, empty text, node envelope, wrapped envelope, node with a wrapped subject) x note absent / non-empty x 4 dates x 4 malformed variants x every digest order",
                api: &["Event::new", "with_note", "with_date", "From<Event<T>> for Envelope", "TryFrom<Envelope> for Event<T>"] },
        ],
        assumptions: { let mut v = COMMON_ASSUMPTIONS.to_vec(); v.push("payload values (functions, parameters, notes, dates) are a catalogue, not solver-quantified"); v },
    }
}

pub fn prop_c19() -> Prop {
    Prop {
        id: "C19",
        scenarios: vec![
            Scenario { name: "attachments", f: c19_attachments, thorough_only: false,
                bounds: "2 host envelopes x every list of 1..3 attachments (a single one over 6 payloads (text, node, wrapped, known value, elided, compressed node), several over 3 fixed payloads x 2 vendors x conformsTo {none, 2 values} x every filter (vendor none / 2 values) x (conformsTo none / 2 values / unknown) x every digest order",
                api: &["add_attachment", "new_attachment", "attachments", "attachments_with_vendor_and_conforms_to", "attachment_with_vendor_and_conforms_to", "attachment_payload", "attachment_vendor", "attachment_conforms_to", "validate_attachment", "Attachments::try_from_envelope"] },
            Scenario { name: "container", f: c19_container, thorough_only: false,
                bounds: "2 host envelopes x every list of 1..3 attachments over 2 payloads x 2 vendors x conformsTo {none, 1 value, the empty string} (in lists of three the second and third over 1 vendor and {none, empty}, the third over 1 payload; shared payloads and exact repeats included) x every collection order into the Attachments container x every digest order",
                api: &["Attachments::new", "Attachments::add", "Attachments::get", "Attachments::remove", "Attachments::is_empty", "Attachments::add_to_envelope", "Attachments::try_from_envelope", "add_attachment", "attachments"] },
            Scenario { name: "malformed", f: c19_malformed, thorough_only: false,
                bounds: "10 malformed attachment assertions (vendor / conformsTo value carrying an assertion, vendor removed / duplicated / not text, conformsTo duplicated / not text, payload not wrapped, extra assertion, bare leaf object), alone or next to a well-formed one x every digest order",
                api: &["validate_attachment", "attachments"] },
            Scenario { name: "types", f: c19_types, thorough_only: false,
                bounds: "every set of <=3 types out of 8 (3 known values, text, text equal to a known value's name, integer, annotated envelope, wrapped) on 2 hosts x has_type / has_type_envelope / check_type(_envelope) for every pool member x get_type x every digest order",
                api: &["add_type", "types", "get_type", "has_type", "has_type_envelope", "check_type", "check_type_envelope"] },
        ],
        assumptions: { let mut v = COMMON_ASSUMPTIONS.to_vec(); v.push("payloads, vendors and conformsTo strings are a catalogue, not solver-quantified"); v },
    }
}
