use crate::engine::Scenario;

pub struct Prop {
    pub id: &'static str,
    pub scenarios: Vec<Scenario>,
    pub assumptions: Vec<&'static str>,
}

pub const COMMON_ASSUMPTIONS: &[&str] = &[
    "digest values influence bc-envelope's control flow only through Digest::{cmp,partial_cmp,eq,hash} (audited syntactically on every run, DESIGN 2.3); equality of digests is real SHA-256 equality (collision-freedom is the specification's premise)",
    "z3 4.8.12 answers on QF_LIA order constraints are correct (thorough tier re-checks the coverage certificate with cvc5)",
    "leaf payloads, keys and nonces are concrete (seeded by VERIF_SEED); the solver quantifies over digest order and the scenario's choice variables only",
    "dependencies (dcbor, bc-components, bc-crypto) execute natively and unmodified except Digest's Ord/PartialOrd, which call the order oracle",
];

pub mod c01;
pub mod c02;
pub mod c04;
pub mod c07;
pub mod c08;
pub mod c09;
pub mod c12;
pub mod c16;
pub mod c17;

pub fn all() -> Vec<Prop> {
    vec![
        c01::prop(),
        c02::prop_c02(),
        c02::prop_c03(),
        c04::prop_c04(),
        c04::prop_c05(),
        c04::prop_c06(),
        c07::prop(),
        c08::prop_c08(),
        c09::prop_c09(),
        c09::prop_c10(),
        c12::prop_c12(),
        c08::prop_c13(),
        c08::prop_c14(),
        c12::prop_c15(),
        c16::prop(),
        c17::prop_c17(),
        c17::prop_c18(),
        c17::prop_c19(),
    ]
}
