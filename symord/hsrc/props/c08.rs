//! C08 Symmetric encryption round-trips, keeps digests and is bound to them
//! C13 Compression round-trips and preserves digests
//! C14 Equivalence and identity comparisons are exact
use super::{Prop, COMMON_ASSUMPTIONS};
use crate::engine::{op, Scenario};
use crate::refs::*;
use crate::rt::{self, choice, flag, R};
use crate::spec::{self, *};
use crate::{ensure, must};
use bc_components::{AuthenticationTag, Compressed, EncryptedMessage, Nonce};
use bc_envelope::prelude::*;
use dcbor::prelude::*;

fn bytes(e: &Envelope) -> Vec<u8> { e.tagged_cbor().to_cbor_data() }
fn fixed_nonce() -> Nonce { Nonce::from_data_ref([7u8; 12]).unwrap() }

// ------------------------------------------------------------------------------------ C08

fn c08_roundtrip() -> R {
    let cat = if rt::thorough() { spec::catalogue(9, true, false, true) } else { spec::catalogue(7, true, false, true) };
    let s = &cat[choice(cat.len())];
    rt::note(s.show());
    let e = build(s);
    let before = bytes(&e);
    let (key, wrong) = (test_key(), other_key());
    match choice(4) {
        0 => {
            op("encrypt_subject");
            let x = match e.encrypt_subject(&key) {
                Ok(x) => x,
                Err(_) => { ensure!(matches!(kind(&e.subject()), Kind::Encrypted | Kind::Elided), "encrypt_subject refused a plain subject", "{:?}", kind(&e.subject())); return Ok(()); }
            };
            ensure!(kind(&e.subject()) != Kind::Encrypted, "an already encrypted subject was encrypted again", "");
            ensure!(bytes(&e) == before, "encrypt_subject altered its receiver", "");
            ensure!(dg(&x) == dg(&e), "encrypted form has another digest", "");
            ensure!(kind(&x.subject()) == Kind::Encrypted, "subject not encrypted", "{:?}", kind(&x.subject()));
            ensure!(dg(&x.subject()) == dg(&e.subject()), "encrypted subject has another digest", "");
            ensure!(x.assertions().len() == e.assertions().len(), "assertions changed by encrypt_subject", "");
            if let Err(m) = well_formed(&x) { return rt::viol("encrypted envelope not canonical", m); }
            op("decrypt_subject");
            let d = must!(x.decrypt_subject(&key), "decryption with the right key failed");
            ensure!(d.is_identical_to(&e) && bytes(&d) == before, "decrypt(encrypt(e)) is not identical to e", "{}", s.show());
            ensure!(x.decrypt_subject(&wrong).is_err(), "decryption with another key returned an envelope", "");
            op("encrypt_subject (again)");
            ensure!(x.encrypt_subject(&key).is_err(), "an already encrypted subject was encrypted again", "bare");
            ensure!(x.encrypt_subject(&wrong).is_err(), "an already encrypted subject was encrypted again", "other key");
            // ... also once the encrypted subject carries (more) assertions
            let xa = must!(x.add_assertion_envelope(build(&a(l(600), l(601)))), "add refused");
            ensure!(xa.encrypt_subject(&key).is_err(), "an already encrypted subject was encrypted again", "after adding an assertion");
            op("decrypt_subject (after adding an assertion)");
            let da = must!(xa.decrypt_subject(&key), "decryption failed after adding an assertion");
            let ea = must!(e.add_assertion_envelope(build(&a(l(600), l(601)))), "add refused");
            ensure!(bytes(&da) == bytes(&ea), "decrypt after add differs from add on the original", "");
            // through serialization
            let y = must!(Envelope::try_from_cbor_data(bytes(&x)), "decode of encrypted envelope failed");
            let dy = must!(y.decrypt_subject(&key), "decryption after decode failed");
            ensure!(bytes(&dy) == before, "decrypt after decode differs", "");
        }
        1 => {
            op("encrypt");
            let x = e.encrypt(&key);
            ensure!(kind(&x) == Kind::Encrypted, "encrypt() did not give an encrypted element", "{:?}", kind(&x));
            ensure!(dg(&x) == sha(&dg(&e)), "encrypt(): digest is not that of the wrapped original", "");
            op("decrypt");
            let d = must!(x.decrypt(&key), "decrypt with the right key failed");
            ensure!(d.is_identical_to(&e) && bytes(&d) == before, "decrypt(encrypt(e)) is not identical to e", "{}", s.show());
            ensure!(x.decrypt(&wrong).is_err(), "decryption with another key returned an envelope", "");
            ensure!(x.encrypt_subject(&key).is_err(), "an already encrypted subject was encrypted again", "whole");
        }
        2 => {
            // the Encrypt action of the elision family on one position, then decryption of that element
            op("elide_removing_target_with_action(Encrypt)");
            let ps = positions(&e);
            let p = &ps[choice(ps.len())];
            rt::assume(ps.iter().filter(|q| q.d == p.d).count() == 1)?;
            let r = e.elide_removing_target_with_action(&p.env, &ObscureAction::Encrypt(key.clone()));
            ensure!(dg(&r) == dg(&e), "digest changed by Encrypt action", "");
            let pr = positions(&r);
            let q = crate::must_some!(at(&pr, &p.path), "encrypted element vanished");
            ensure!(q.kind == Kind::Encrypted && q.d == p.d, "targeted element not encrypted under its digest", "{:?}", q.kind);
            op("decrypt_subject (element)");
            let back = must!(q.env.decrypt_subject(&key), "element decryption failed");
            ensure!(bytes(&back) == bytes(&p.env), "decrypted element differs from the original element", "at {:?}", p.path);
            ensure!(q.env.decrypt_subject(&wrong).is_err(), "decryption with another key returned an envelope", "element");
        }
        _ => {
            op("decrypt_subject (not encrypted)");
            if kind(&e.subject()) != Kind::Encrypted { ensure!(e.decrypt_subject(&key).is_err(), "decrypt_subject of a non-encrypted subject returned an envelope", ""); }
        }
    }
    Ok(())
}

/// a key holder encrypts content A but declares the digest of B
fn c08_misdeclared() -> R {
    let cat = spec::catalogue(5, true, false, false);
    let extra = vec![n(l(1), vec![a(l(2), l(3)), a(l(4), l(5))]), w(n(l(1), vec![a(l(2), l(3))]))];
    let pick = |i: usize| -> Spec { if i < cat.len() { cat[i].clone() } else { extra[i - cat.len()].clone() } };
    let sa = pick(choice(cat.len() + extra.len()));
    let mut nb = 0u32;
    let sb = { let t = pick(choice(cat.len() + extra.len())); let mut k = 100; let r = relabel(&t, &mut k); nb += 1; r };
    let _ = nb;
    let (ea, eb) = (build(&sa), build(&sb));
    rt::assume(!matches!(kind(&ea), Kind::Node) && !matches!(kind(&eb), Kind::Node))?; // subjects only; nodes are covered by adding assertions below
    let key = test_key();
    op("SymmetricKey::encrypt_with_digest + Envelope::try_from(EncryptedMessage)");
    let msg = key.encrypt_with_digest(bytes(&ea), eb.digest().into_owned(), Some(fixed_nonce()));
    let forged = must!(Envelope::try_from(msg), "encrypted message with digest refused");
    ensure!(dg(&forged) == dg(&eb), "encrypted element does not report its declared digest", "");
    let nass = choice(3);
    let mut f = forged.clone();
    for i in 0..nass { f = must!(f.add_assertion_envelope(build(&a(l(700 + 2 * i as u32), l(701 + 2 * i as u32)))), "add refused"); }
    let via_bytes = choice(2) == 1;
    let f = if via_bytes { must!(Envelope::try_from_cbor_data(bytes(&f)), "decode failed") } else { f };
    op("decrypt_subject (mis-declared digest)");
    let r = f.decrypt_subject(&key);
    if dg(&ea) == dg(&eb) {
        let d = must!(r, "honest ciphertext refused");
        ensure!(dg(&d.subject()) == dg(&ea), "decrypted subject has another digest", "");
    } else {
        ensure!(r.is_err(), "ciphertext whose plaintext does not hash to the declared digest was accepted", "content {} declared as {} with {} assertions{}", sa.show(), sb.show(), nass, if via_bytes { " (decoded)" } else { "" });
    }
    Ok(())
}

/// byte strings that are not the encoding of a well-formed envelope (content a key holder / sender may put inside an
/// encrypted or compressed element)
pub fn malformed_payloads() -> Vec<(&'static str, Vec<u8>)> {
    let leaf = |t: &str| CBOR::to_tagged_value(201u64, t);
    let env = |c: CBOR| CBOR::to_tagged_value(200u64, c).to_cbor_data();
    let arr = |v: Vec<CBOR>| -> CBOR { CBORCase::Array(v).into() };
    let two = { let mut m = Map::new(); m.insert(leaf("p"), leaf("o")); m.insert(leaf("q"), leaf("r")); CBOR::from(m) };
    vec![
        ("node of a subject and no assertions", env(arr(vec![leaf("x")]))),
        ("empty node", env(arr(vec![]))),
        ("node whose assertion element is a leaf", env(arr(vec![leaf("x"), leaf("y")]))),
        ("assertion map with two entries", env(two)),
        ("elided digest of 31 bytes", env(CBOR::to_byte_string(vec![7u8; 31]))),
        ("leaf without the envelope tag", leaf("x").to_cbor_data()),
        ("truncated", vec![0xd8, 0xc8]),
        ("trailing byte", { let mut b = env(leaf("x")); b.push(0); b }),
        ("node without the envelope tag", arr(vec![leaf("x"), { let mut m = Map::new(); m.insert(leaf("p"), leaf("o")); CBOR::from(m) }]).to_cbor_data()),
        ("assertion map without the envelope tag", { let mut m = Map::new(); m.insert(leaf("p"), leaf("o")); CBOR::from(m).to_cbor_data() }),
        ("known value without the envelope tag", CBOR::from(4u64).to_cbor_data()),
        ("elided digest without the envelope tag", CBOR::to_byte_string(vec![7u8; 32]).to_cbor_data()),
        ("not CBOR", vec![0xff, 0xff, 0xff]),
        ("empty", vec![]),
    ]
}

/// content that is not a well-formed envelope is refused on decryption (an error, not a crash, not an envelope)
fn c08_malformed_content() -> R {
    let ps = malformed_payloads();
    let (name, payload) = &ps[choice(ps.len())];
    let key = test_key();
    // declared digest: SHA-256 of the content, an unrelated digest, or the digest the content would have were it read as an envelope written without its tag
    let as_untagged = CBOR::try_from_data(payload).ok().and_then(|c| Envelope::from_untagged_cbor(c).ok()).map(|x| dg(&x));
    let decl = match choice(3) { 0 => sha(payload), 1 => dg(&build(&l(1))), _ => match as_untagged { Some(d) => d, None => return Ok(()) } };
    op("SymmetricKey::encrypt_with_digest + Envelope::try_from(EncryptedMessage)");
    let msg = key.encrypt_with_digest(payload.clone(), Digest::from_data(decl), Some(fixed_nonce()));
    let forged = must!(Envelope::try_from(msg), "encrypted message with digest refused");
    let f = match choice(3) { 0 => forged.clone(), 1 => must!(Envelope::try_from_cbor_data(bytes(&forged)), "decode failed"), _ => must!(forged.add_assertion_envelope(build(&a(l(700), l(701)))), "add refused") };
    rt::note(format!("content: {}", name));
    op("decrypt_subject (content is not an envelope)");
    ensure!(f.decrypt_subject(&key).is_err(), "content that is not a well-formed envelope was accepted on decryption", "{}", name);
    Ok(())
}

/// single-field tampering (concrete catalogue of bit positions; AEAD is executed, not solver-decided)
fn c08_tamper() -> R {
    let e = build(&n(l(1), vec![a(l(2), l(3))]));
    let key = test_key();
    let x = must!(e.encrypt_subject_opt(&key, Some(fixed_nonce())), "encrypt failed");
    let xs = x.subject();
    let bc_envelope::base::envelope::EnvelopeCase::Encrypted(m) = xs.case() else { return rt::viol("subject not encrypted", "") };
    let (mut ct, mut aad, mut nonce, mut auth) = (m.ciphertext().clone(), m.aad().clone(), m.nonce().data().to_vec(), m.authentication_tag().data().to_vec());
    let field = choice(4);
    let flen = [ct.len(), aad.len(), nonce.len(), auth.len()][field];
    let idx = choice(flen);
    let bit = choice(8);
    match field { 0 => ct[idx] ^= 1 << bit, 1 => aad[idx] ^= 1 << bit, 2 => nonce[idx] ^= 1 << bit, _ => auth[idx] ^= 1 << bit }
    rt::note(format!("field {} byte {} bit {}", ["ciphertext", "aad(declared digest)", "nonce", "auth tag"][field], idx, bit));
    let m2 = EncryptedMessage::new(ct, aad, Nonce::from_data_ref(&nonce).unwrap(), AuthenticationTag::from_data_ref(&auth).unwrap());
    op("decrypt_subject (tampered)");
    let bare = match Envelope::try_from(m2) { Ok(b) => b, Err(_) => return Ok(()) }; // refusing to build it is fine
    let r1 = bare.decrypt_subject(&key);
    ensure!(r1.is_err(), "tampered encrypted element was decrypted", "field {}", field);
    // inside the node (the node digest no longer matches either)
    if let Ok(nodeish) = bare.add_assertion_envelope(build(&a(l(2), l(3)))) {
        ensure!(nodeish.decrypt_subject(&key).is_err(), "tampered encrypted subject was decrypted", "field {}", field);
    }
    Ok(())
}

// ------------------------------------------------------------------------------------ C13

fn payload(i: usize) -> Envelope {
    match i {
        0 => Envelope::new("lorem ipsum dolor sit amet ".repeat(40)),
        1 => { let mut v = vec![0u8; 300]; let mut x = rt::nonce() | 1; for b in v.iter_mut() { x ^= x << 13; x ^= x >> 7; x ^= x << 17; *b = x as u8; } Envelope::new(dcbor::ByteString::from(v)) }
        2 => Envelope::new(""),
        _ => Envelope::new(7u8),
    }
}

fn c13_roundtrip() -> R {
    let cat = if rt::thorough() { spec::catalogue(9, true, false, true) } else { spec::catalogue(7, true, false, true) };
    let npay = 4;
    let i = choice(cat.len() + npay * 2);
    let (e, name) = if i < cat.len() { (build(&cat[i]), cat[i].show()) }
        else { let j = i - cat.len(); let p = payload(j % npay); if j < npay { (p, format!("payload {}", j)) } else { (p.add_assertion("k", payload(j % npay)).add_assertion(payload((j + 1) % npay), "v"), format!("payload node {}", j)) } };
    rt::note(name.clone());
    // the same envelope after each of its assertions was offered to it once more (present is decided by digest)
    let e = { let mut x = e.clone(); if flag() { for a in e.assertions() { x = must!(x.add_assertion_envelope(a), "re-add refused"); } ensure!(bytes(&x) == bytes(&e), "adding the assertions an envelope already has changed it", "{}", name); } x };
    let before = bytes(&e);
    let obsc = matches!(kind(&e), Kind::Elided | Kind::Encrypted);
    let sobsc = matches!(kind(&e.subject()), Kind::Elided | Kind::Encrypted);
    match choice(4) {
        0 => {
            op("compress");
            let c = match e.compress() { Ok(c) => c, Err(_) => { ensure!(obsc, "compress refused a plain envelope", ""); return Ok(()); } };
            ensure!(!obsc, "compress accepted an elided / encrypted envelope", "");
            ensure!(kind(&c) == Kind::Compressed, "compress() did not give a compressed element", "");
            ensure!(dg(&c) == dg(&e), "compressed form has another digest", "{}", name);
            ensure!(bytes(&e) == before, "compress altered its receiver", "");
            let cc = must!(c.compress(), "compress of a compressed envelope failed");
            ensure!(bytes(&cc) == bytes(&c), "compressing twice is not idempotent", "");
            // ... also through the Compress action of the elision calls (removing form aimed at it, revealing form that reveals nothing)
            op("elide_*_with_action(Compress) on a compressed envelope");
            let ca = c.elide_removing_target_with_action(&c, &ObscureAction::Compress);
            ensure!(bytes(&ca) == bytes(&c), "the Compress action on an already compressed element is not idempotent", "removing form");
            let cr = c.elide_revealing_set_with_action(&std::collections::HashSet::new(), &ObscureAction::Compress);
            ensure!(bytes(&cr) == bytes(&c), "the Compress action on an already compressed element is not idempotent", "revealing form");
            op("uncompress");
            let u = must!(c.uncompress(), "uncompress failed");
            ensure!(u.is_identical_to(&e) && bytes(&u) == before, "uncompress(compress(e)) is not identical to e", "{}", name);
            let d = must!(Envelope::try_from_cbor_data(bytes(&c)), "decode of compressed envelope failed");
            ensure!(bytes(&must!(d.uncompress(), "uncompress after decode failed")) == before, "uncompress after decode differs", "");
            if let Err(m) = well_formed(&c) { return rt::viol("compressed envelope not canonical", m); }
        }
        1 if !e.assertions().is_empty() && flag() => {
            // one assertion compressed in place by replacing it with its compressed form, and back
            op("replace_assertion (an assertion by its compressed form and back)");
            let asr = e.assertions();
            let a0 = asr[choice(asr.len())].clone();
            let Ok(ca) = a0.compress() else { return Ok(()) };
            if kind(&a0) == Kind::Compressed { return Ok(()); }
            let r = must!(e.replace_assertion(a0.clone(), ca.clone()), "replace refused");
            ensure!(dg(&r) == dg(&e), "digest changed by compressing an assertion in place", "{}", name);
            ensure!(r.assertions().iter().any(|x| bytes(x) == bytes(&ca)), "replacing an assertion by its compressed form left it uncompressed", "{}", name);
            let back = must!(r.replace_assertion(ca.clone(), must!(ca.uncompress(), "uncompress failed")), "replace refused");
            ensure!(bytes(&back) == before, "compressing an assertion in place and uncompressing it again does not give the original", "{}", name);
            let whole = must!(must!(r.compress(), "compress failed").uncompress(), "uncompress failed");
            ensure!(bytes(&whole) == bytes(&r), "uncompress(compress(e)) is not identical to e", "{} with one assertion compressed", name);
        }
        1 => {
            op("compress_subject");
            let c = match e.compress_subject() { Ok(c) => c, Err(_) => { ensure!(sobsc, "compress_subject refused a plain subject", ""); return Ok(()); } };
            ensure!(dg(&c) == dg(&e), "compress_subject form has another digest", "{}", name);
            ensure!(kind(&c.subject()) == Kind::Compressed, "subject not compressed", "");
            ensure!(c.assertions().len() == e.assertions().len(), "assertions changed by compress_subject", "");
            let cc = must!(c.compress_subject(), "compress_subject twice failed");
            ensure!(bytes(&cc) == bytes(&c), "compress_subject twice is not idempotent", "");
            // (only where the subject's digest occurs nowhere else: the action hides every occurrence of its target)
            if positions(&c).iter().filter(|p| p.d == dg(&c.subject())).count() == 1 {
                let ca = c.elide_removing_target_with_action(&c.subject(), &ObscureAction::Compress);
                ensure!(bytes(&ca) == bytes(&c), "the Compress action on an already compressed subject is not idempotent", "{}", name);
            }
            if let Err(m) = well_formed(&c) { return rt::viol("compress_subject result not canonical", m); }
            op("uncompress_subject");
            let u = must!(c.uncompress_subject(), "uncompress_subject failed");
            if kind(&e.subject()) != Kind::Compressed { ensure!(u.is_identical_to(&e) && bytes(&u) == before, "uncompress_subject(compress_subject(e)) is not identical to e", "{}", name); }
            ensure!(dg(&u) == dg(&e), "digest changed by uncompress_subject", "");
        }
        2 => {
            // a compressed element used as the subject of further assertions
            op("compress + add_assertion_envelope");
            let c = match e.compress() { Ok(c) => c, Err(_) => return Ok(()) };
            let extra = [build(&a(l(610), l(611))), build(&a(l(612), l(613)))];
            let mut ca = c.clone();
            for x in &extra { ca = must!(ca.add_assertion_envelope(x.clone()), "add refused"); }
            // specification: node over the (declared) digest of e and the two assertions
            let mut ds = vec![dg(&extra[0]), dg(&extra[1])];
            sort_digests(&mut ds);
            let mut img = dg(&e).to_vec(); for d in &ds { img.extend_from_slice(d); }
            ensure!(dg(&ca) == sha(&img), "node over a compressed subject has the wrong digest", "");
            op("uncompress_subject (compressed subject with assertions)");
            let u = must!(ca.uncompress_subject(), "uncompress_subject failed");
            ensure!(dg(&u) == dg(&ca), "digest changed by uncompress_subject", "{}", name);
            ensure!(bytes(&u.subject()) == before, "uncompressed subject differs from the original", "");
            ensure!(u.assertions().len() == 2, "assertions lost or merged by uncompress_subject", "{}", u.assertions().len());
            if let Err(m) = check_tree(&u) { return rt::viol("uncompress_subject result inconsistent", m); }
            let back = must!(u.compress_subject(), "compress_subject failed");
            ensure!(dg(&back) == dg(&ca), "digest changed by compress_subject", "");
        }
        _ => {
            // chains of 3 operations keep the digest at every step
            let mut cur = e.clone();
            let mut trace = vec![];
            for _ in 0..3 {
                let k = choice(4);
                let name = ["compress", "compress_subject", "uncompress", "uncompress_subject"][k];
                op(name);
                let r = match k { 0 => cur.compress(), 1 => cur.compress_subject(), 2 => cur.uncompress(), _ => cur.uncompress_subject() };
                trace.push(name);
                // an operation may only be refused for its documented reason
                if r.is_err() {
                    let legit = match k {
                        0 => matches!(kind(&cur), Kind::Elided | Kind::Encrypted),
                        1 => matches!(kind(&cur.subject()), Kind::Elided | Kind::Encrypted),
                        2 => kind(&cur) != Kind::Compressed,
                        _ => false,
                    };
                    ensure!(legit, "a compress / uncompress step failed on an honest envelope", "{:?}: {}", trace, r.as_ref().err().map(|e| e.to_string()).unwrap_or_default());
                }
                if let Ok(x) = r {
                    ensure!(dg(&x) == dg(&e), "digest changed along a compress/uncompress chain", "{:?}", trace);
                    if let Err(m) = well_formed(&x) { return rt::viol("chain result not canonical", format!("{:?}: {}", trace, m)); }
                    cur = x;
                }
            }
            // undo everything: full uncompress of whatever is compressed at the top
            let mut fin = cur;
            for _ in 0..4 { if kind(&fin) == Kind::Compressed { fin = must!(fin.uncompress(), "uncompress failed"); } else if kind(&fin.subject()) == Kind::Compressed { fin = must!(fin.uncompress_subject(), "uncompress_subject failed"); } }
            if !positions(&e).iter().any(|p| p.kind == Kind::Compressed) {
                ensure!(bytes(&fin) == before, "compress/uncompress chain does not return to the original", "{:?}", trace);
            }
        }
    }
    Ok(())
}

fn c13_misdeclared() -> R {
    let cat = spec::catalogue(5, true, false, false);
    let sa = cat[choice(cat.len())].clone();
    let sb = { let mut k = 100; relabel(&cat[choice(cat.len())], &mut k) };
    let (ea, eb) = (build(&sa), build(&sb));
    op("Compressed::from_uncompressed_data + Envelope::try_from(Compressed)");
    let c = Compressed::from_uncompressed_data(bytes(&ea), Some(eb.digest().into_owned()));
    let forged = must!(Envelope::try_from(c), "compressed with digest refused");
    ensure!(dg(&forged) == dg(&eb), "compressed element does not report its declared digest", "");
    let f = match choice(3) { 0 => forged.clone(), 1 => must!(Envelope::try_from_cbor_data(bytes(&forged)), "decode failed"), _ => must!(forged.add_assertion_envelope(build(&a(l(700), l(701)))), "add refused") };
    op("uncompress (mis-declared digest)");
    let r = if kind(&f) == Kind::Compressed { f.uncompress() } else { f.uncompress_subject() };
    if dg(&ea) == dg(&eb) { ensure!(r.is_ok(), "honest compressed element refused", ""); }
    else { ensure!(r.is_err(), "compressed element whose content does not hash to the declared digest was accepted", "content {} declared as {}", sa.show(), sb.show()); }
    // no digest at all: not an envelope
    let nod = Compressed::from_uncompressed_data(bytes(&ea), None);
    ensure!(Envelope::try_from(nod).is_err(), "compressed element without digest accepted as envelope", "");
    Ok(())
}

/// content that is not a well-formed envelope is refused on decompression (an error, not a crash, not an envelope)
fn c13_malformed_content() -> R {
    let ps = malformed_payloads();
    let (name, payload) = &ps[choice(ps.len())];
    // declared digest: SHA-256 of the content, an unrelated digest, or the digest the content would have were it read as an envelope written without its tag
    let as_untagged = CBOR::try_from_data(payload).ok().and_then(|c| Envelope::from_untagged_cbor(c).ok()).map(|x| dg(&x));
    let decl = match choice(3) { 0 => sha(payload), 1 => dg(&build(&l(1))), _ => match as_untagged { Some(d) => d, None => return Ok(()) } };
    op("Compressed::from_uncompressed_data + Envelope::try_from(Compressed)");
    let c = Compressed::from_uncompressed_data(payload.clone(), Some(Digest::from_data(decl)));
    let forged = must!(Envelope::try_from(c), "compressed with digest refused");
    let f = match choice(3) { 0 => forged.clone(), 1 => must!(Envelope::try_from_cbor_data(bytes(&forged)), "decode failed"), _ => must!(forged.add_assertion_envelope(build(&a(l(700), l(701)))), "add refused") };
    rt::note(format!("content: {}", name));
    op("uncompress (content is not an envelope)");
    let r = if kind(&f) == Kind::Compressed { f.uncompress() } else { f.uncompress_subject() };
    ensure!(r.is_err(), "content that is not a well-formed envelope was accepted on decompression", "{}", name);
    Ok(())
}

fn c13_corrupt() -> R {
    let e = Envelope::new("lorem ipsum dolor sit amet ".repeat(20)).add_assertion("k", "v");
    let c = must!(e.compress(), "compress failed");
    let inner = c.untagged_cbor();
    let CBORCase::Tagged(_, arr) = inner.as_case() else { return rt::viol("compressed encoding is not tagged", "") };
    let CBORCase::Array(v) = arr.as_case() else { return rt::viol("compressed encoding is not an array", "") };
    let mut v = v.clone();
    let CBORCase::ByteString(b) = v[2].as_case() else { return rt::viol("compressed data is not a byte string", "") };
    let data: Vec<u8> = { let b: &[u8] = b.as_ref(); b.to_vec() };
    let which = choice(5);
    match which {
        0 => { let i = choice(data.len()); let mask = [0x01u8, 0x10, 0x80][choice(3)]; let mut d = data.clone(); d[i] ^= mask; v[2] = CBOR::to_byte_string(d); rt::note(format!("byte {} ^ {:#x}", i, mask)); }
        1 => { let n = choice(data.len()); v[2] = CBOR::to_byte_string(&data[..n]); rt::note(format!("truncated to {}", n)); }
        2 => { v[0] = [0u32, 12345, u32::MAX][choice(3)].into(); }              // checksum
        3 => { v[1] = [0u32, 1, 10_000, 1 << 30][choice(4)].into(); }           // declared size
        _ => { let mut d = data.clone(); d.extend_from_slice(&[0u8; 4]); v[2] = CBOR::to_byte_string(d); } // trailing garbage
    }
    let bad = CBOR::to_tagged_value(200u64, CBOR::to_tagged_value(40003u64, CBOR::from(v))).to_cbor_data();
    op("uncompress (corrupt data)");
    match Envelope::try_from_cbor_data(bad) {
        Err(_) => {}
        Ok(x) => match x.uncompress() {
            Err(_) => {}
            Ok(u) => ensure!(bytes(&u) == bytes(&e), "corrupt compressed data produced another envelope", "corruption {}", which),
        },
    }
    Ok(())
}

// ------------------------------------------------------------------------------------ C14

#[derive(Clone, Debug, PartialEq)]
enum Var { Original, Decoded, Unrelated, OtherLeaf, Obs(Vec<(Vec<usize>, usize)>) }

fn variants_of(s: &Spec) -> Vec<Var> {
    let mut v = vec![Var::Original, Var::Decoded, Var::Unrelated, Var::OtherLeaf];
    let paths = spec_paths(s);
    let limit = if rt::thorough() { 8 } else { 6 };
    let ps: Vec<Vec<usize>> = paths.into_iter().filter(|p| !spec_at(s, p).unwrap().is_obscured()).take(limit).collect();
    for p in &ps { for how in 0..3 { v.push(Var::Obs(vec![(p.clone(), how)])); } }
    // two positions, neither inside the other
    for (i, p) in ps.iter().enumerate() { for q in ps.iter().skip(i + 1) {
        if q.starts_with(p) || p.starts_with(q) { continue; }
        for (h1, h2) in [(0, 0), (0, 2), (1, 0)] { v.push(Var::Obs(vec![(p.clone(), h1), (q.clone(), h2)])); }
    } }
    v
}
fn realise(s: &Spec, v: &Var) -> R<(Envelope, bool)> { // (envelope, same content as s)
    Ok(match v {
        Var::Original => (build(s), true),
        Var::Decoded => (must!(Envelope::try_from_cbor_data(bytes(&build(s))), "decode failed"), true),
        Var::Unrelated => (build(&n(l(900), vec![a(l(901), l(902))])), false),
        Var::OtherLeaf => { let mut k = 300; (build(&relabel(s, &mut k)), false) }
        Var::Obs(list) => {
            // through the elision API on the built original
            let mut e = build(s);
            for (p, how) in list {
                let target = spec_digest(spec_at(s, p).unwrap());
                let action = match how { 0 => ObscureAction::Elide, 1 => ObscureAction::Encrypt(test_key()), _ => ObscureAction::Compress };
                e = e.elide_removing_set_with_action(&to_set(&[target]), &action);
            }
            (e, true)
        }
    })
}
/// the obscuration pattern as the harness knows it from its own choices: (digest of the obscured element, kind)
fn pattern(s: &Spec, v: &Var) -> Vec<(D, usize)> {
    let mut out = vec![];
    // obscured elements already in the base shape
    for p in spec_paths(s) { match spec_at(s, &p).unwrap() { Spec::Elided(x) => out.push((spec_digest(x), 0)), Spec::Encrypted(x) => out.push((spec_digest(x), 1)), Spec::Compressed(x) => out.push((spec_digest(x), 2)), _ => {} } }
    if let Var::Obs(list) = v { for (p, how) in list {
        let t = spec_at(s, p).unwrap();
        // obscuring hides what was obscured below it
        let below: Vec<D> = spec_paths(t).iter().skip(1).filter_map(|q| match spec_at(t, q).unwrap() { Spec::Elided(x) | Spec::Encrypted(x) | Spec::Compressed(x) => Some(spec_digest(x)), _ => None }).collect();
        out.retain(|(d, _)| !below.contains(d));
        out.push((spec_digest(t), *how));
    } }
    out.sort();
    out
}

fn c14_with(triples: bool) -> R {
    let cat = if triples { spec::catalogue(5, true, false, false) } else if rt::thorough() { spec::catalogue(7, true, false, true) } else { spec::catalogue(6, true, false, true) };
    let s = &cat[choice(cat.len())];
    // a digest occurring at several positions is obscured everywhere at once: keep shapes with unique content
    { let e = build(s); let ps = positions(&e); let mut seen = std::collections::HashSet::new(); rt::assume(ps.iter().all(|p| seen.insert(p.d)))?; }
    let vs = variants_of(s);
    let va = &vs[choice(vs.len())];
    let vb = &vs[choice(vs.len())];
    rt::note(format!("{} :: {:?} vs {:?}", s.show(), va, vb));
    let (ea, ca) = realise(s, va)?;
    let (eb, cb) = realise(s, vb)?;
    let same_content = (ca && cb) || va == vb;
    op("is_equivalent_to / is_identical_to / ==");
    let equiv = ea.is_equivalent_to(&eb);
    ensure!(equiv == (dg(&ea) == dg(&eb)), "is_equivalent_to disagrees with digest equality", "");
    ensure!(equiv == same_content, "equivalence disagrees with content equality", "{:?} vs {:?}", va, vb);
    let ident = ea.is_identical_to(&eb);
    ensure!((ea == eb) == ident, "== disagrees with is_identical_to", "");
    let same_pattern = pattern(s, va) == pattern(s, vb);
    ensure!(ident == (same_content && same_pattern), "is_identical_to disagrees with (equivalent and same obscuration pattern)", "{:?} vs {:?}: identical={} equivalent={} same pattern={}", va, vb, ident, same_content, same_pattern);
    ensure!(!ident || equiv, "identical but not equivalent", "");
    ensure!(ea.is_identical_to(&ea) && ea == ea.clone(), "identity not reflexive", "");
    ensure!(eb.is_identical_to(&ea) == ident && eb.is_equivalent_to(&ea) == equiv, "comparison not symmetric", "");
    // preserved by encoding and decoding
    let da = must!(Envelope::try_from_cbor_data(bytes(&ea)), "decode failed");
    ensure!(da.is_identical_to(&ea) && da.is_identical_to(&eb) == ident, "identity not preserved by encode/decode", "");
    // obscuring a present element: equivalent, not identical
    if let (Var::Original, Var::Obs(_)) = (va, vb) { ensure!(equiv && !ident, "obscured variant must be equivalent but not identical to the original", "{:?}", vb); }
    if triples {
        let vc = &vs[choice(vs.len())];
        let (ec, _) = realise(s, vc)?;
        let (ab, bc, ac) = (ident, eb.is_identical_to(&ec), ea.is_identical_to(&ec));
        ensure!(!(ab && bc) || ac, "identity not transitive", "{:?} {:?} {:?}", va, vb, vc);
        let (qab, qbc, qac) = (equiv, eb.is_equivalent_to(&ec), ea.is_equivalent_to(&ec));
        ensure!(!(qab && qbc) || qac, "equivalence not transitive", "{:?} {:?} {:?}", va, vb, vc);
    }
    Ok(())
}
fn c14_pairs() -> R { c14_with(false) }
fn c14_triples() -> R { c14_with(true) }

pub fn prop_c08() -> Prop {
    Prop {
        id: "C08",
        scenarios: vec![
            Scenario { name: "roundtrip", f: c08_roundtrip, thorough_only: false,
                bounds: "every shape of <=7 (quick) / <=9 (thorough) elements with known values + 30 hand-written shapes (all subject cases, with and without assertions, incl. obscured subjects) x {encrypt_subject/decrypt_subject (+wrong key, second encryption bare / with another key / after adding an assertion, decrypt after add, decrypt after decode), encrypt/decrypt, Encrypt action on every single position + element decryption, decrypt of a non-encrypted subject} x every digest order. One concrete key pair per run (VERIF_SEED)",
                api: &["encrypt_subject", "decrypt_subject", "encrypt", "decrypt", "elide_removing_target_with_action(Encrypt)", "add_assertion_envelope", "try_from_cbor_data"] },
            Scenario { name: "misdeclared", f: c08_misdeclared, thorough_only: false,
                bounds: "content A x declared digest of B, A and B every non-node shape of <=5 elements + 2 larger (wrapped node) x 0..2 assertions added to the encrypted element x direct / decoded x every digest order: decryption must fail whenever digest(A) != digest(B)",
                api: &["Envelope::try_from(EncryptedMessage)", "decrypt_subject"] },
            Scenario { name: "malformed_content", f: c08_malformed_content, thorough_only: false,
                bounds: "14 plaintexts that are not the encoding of a well-formed envelope (a node / assertion / known value / elided digest written without the envelope tag, node without assertions, empty node, leaf as assertion element, two-entry map, 31-byte elided digest, missing envelope tag, truncated, trailing byte, not CBOR, empty) x declared digest {SHA-256 of the plaintext, another digest, the digest the plaintext would have read as an untagged envelope} x bare / decoded / carrying an assertion: decrypt_subject returns an error",
                api: &["Envelope::try_from(EncryptedMessage)", "decrypt_subject"] },
            Scenario { name: "tamper", f: c08_tamper, thorough_only: false,
                bounds: "every single bit of the ciphertext, the declared digest (aad), the nonce and the authentication tag of one encrypted subject flipped (choice variables, exhaustively forked), bare and as node subject. ChaCha20-Poly1305 itself is executed, not solver-decided; multi-bit tampering is outside",
                api: &["decrypt_subject", "Envelope::try_from(EncryptedMessage)"] },
        ],
        assumptions: COMMON_ASSUMPTIONS.to_vec(),
    }
}

pub fn prop_c13() -> Prop {
    Prop {
        id: "C13",
        scenarios: vec![
            Scenario { name: "roundtrip", f: c13_roundtrip, thorough_only: false,
                bounds: "every shape of <=7 (quick) / <=9 (thorough) elements + 30 hand-written shapes + 4 payload kinds (compressible, incompressible, empty, tiny) bare and in nodes, as built or after each of its assertions was offered to it once more x {the Compress action of the elision calls on an already compressed envelope / subject, compress/uncompress (+idempotence, +decode), compress_subject/uncompress_subject, compressed element as subject of 2 further assertions then uncompress_subject / compress_subject, every chain of 3 operations out of the 4} x every digest order; digest equal at every step",
                api: &["compress", "uncompress", "compress_subject", "uncompress_subject", "add_assertion_envelope", "replace_subject"] },
            Scenario { name: "misdeclared", f: c13_misdeclared, thorough_only: false,
                bounds: "content A x declared digest of B over every shape of <=5 elements, bare / decoded / with an assertion; compressed element without digest",
                api: &["Envelope::try_from(Compressed)", "uncompress", "uncompress_subject"] },
            Scenario { name: "malformed_content", f: c13_malformed_content, thorough_only: false,
                bounds: "14 contents that are not the encoding of a well-formed envelope (a node / assertion / known value / elided digest written without the envelope tag, node without assertions, empty node, leaf as assertion element, two-entry map, 31-byte elided digest, missing envelope tag, truncated, trailing byte, not CBOR, empty) x declared digest {SHA-256 of the content, another digest, the digest the content would have read as an untagged envelope} x bare / decoded / carrying an assertion: uncompress(_subject) returns an error",
                api: &["Envelope::try_from(Compressed)", "uncompress", "uncompress_subject"] },
            Scenario { name: "corrupt", f: c13_corrupt, thorough_only: false,
                bounds: "one compressed node: every byte of the DEFLATE stream XOR 3 masks, every truncation length, 3 checksums, 4 declared sizes, trailing garbage (choice variables, exhaustively forked; DEFLATE and CRC-32 themselves are executed, not solver-decided)",
                api: &["try_from_cbor_data", "uncompress"] },
        ],
        assumptions: COMMON_ASSUMPTIONS.to_vec(),
    }
}

/// deep nesting: a leaf under up to 40 levels (chains of wrappers, of objects, of predicates, of node subjects via
/// compress / uncompress_subject, mixed); obscuring the innermost leaf by each action gives four pairwise
/// non-identical, all equivalent envelopes; identity survives encode -> decode
fn c14_deep() -> R {
    let depth = [1usize, 2, 11, 12, 13, 22, 23, 24, 25, 26, 31, 40][choice(12)];
    let style = choice(4);
    let inner = Envelope::new(leaf_text(800));
    let mut e = inner.clone();
    for i in 0..depth {
        e = match style {
            0 => e.wrap_envelope(),
            1 => Envelope::new(leaf_text(801 + i as u32)).add_assertion(leaf_text(850), e),
            2 => Envelope::new(leaf_text(801 + i as u32)).add_assertion(e, leaf_text(850)),
            _ => if i % 2 == 0 { e.wrap_envelope() } else { Envelope::new(leaf_text(801 + i as u32)).add_assertion(leaf_text(850), e) },
        };
    }
    rt::note(format!("depth {} style {}", depth, style));
    op("elide_removing_target_with_action (innermost element)");
    let variants: Vec<Envelope> = vec![
        e.clone(),
        e.elide_removing_target(&inner),
        e.elide_removing_target_with_action(&inner, &ObscureAction::Encrypt(test_key())),
        e.elide_removing_target_with_action(&inner, &ObscureAction::Compress),
    ];
    for (i, x) in variants.iter().enumerate() {
        ensure!(dg(x) == dg(&e) && x.is_equivalent_to(&e), "obscuring changed the digest", "variant {}", i);
        ensure!(positions(x).iter().any(|p| p.kind == [Kind::Leaf, Kind::Elided, Kind::Encrypted, Kind::Compressed][i] && p.d == dg(&inner)), "the innermost element was not obscured as asked", "variant {} depth {}", i, depth);
        let back = must!(Envelope::try_from_cbor_data(bytes(x)), "decode of own encoding failed");
        ensure!(back.is_identical_to(x) && x.is_identical_to(&back) && back == *x, "identity not preserved by encoding and decoding", "variant {} depth {}", i, depth);
        for (j, y) in variants.iter().enumerate() {
            op("is_identical_to / == / structural_digest");
            let same = i == j;
            ensure!(x.is_identical_to(y) == same, "is_identical_to wrong for two obscuration states of one deep position", "variants {} / {} depth {} style {}", i, j, depth, style);
            ensure!((x == y) == same, "== wrong for two obscuration states of one deep position", "variants {} / {} depth {}", i, j, depth);
            ensure!((x.structural_digest() == y.structural_digest()) == same, "structural_digest does not separate two obscuration states of one deep position", "variants {} / {} depth {}", i, j, depth);
        }
    }
    Ok(())
}

/// identity and equivalence across encode -> decode (every public route) over unusual leaf values: the re-decoded copy
/// is identical and equivalent to the original, its obscured variants are equivalent but not identical
fn c14_decoded_values() -> R {
    let vals: Vec<(&str, CBOR)> = vec![
        ("text", "hello".into()), ("u64 max", u64::MAX.into()), ("negative", (-300i16).into()), ("float", 1.5f64.into()), ("reducible float", 42.0f64.into()), ("nan", f64::NAN.into()),
        ("bytes", CBOR::to_byte_string([1u8, 2, 3])), ("bytes that are one encoded item", CBOR::to_byte_string([0x18u8, 0x2a])), ("32 bytes", CBOR::to_byte_string([9u8; 32])),
        ("null", CBOR::null()), ("false", false.into()), ("empty array", Vec::<u8>::new().into()), ("empty map", Map::new().into()),
        ("tagged 24 over bytes", CBOR::to_tagged_value(24u64, CBOR::to_byte_string([0x61u8, 0x78]))), ("tagged 24 over text", CBOR::to_tagged_value(24u64, "x")),
        ("tagged 201", CBOR::to_tagged_value(201u64, "x")), ("tagged 201 over tagged 24", CBOR::to_tagged_value(201u64, CBOR::to_tagged_value(24u64, 5u8))),
        ("tagged 200 that is no envelope", CBOR::to_tagged_value(200u64, "x")), ("CBOR of an envelope", Envelope::new("inner").add_assertion("p", "o").to_cbor()),
        ("tagged 40000 (looks like a known value image)", CBOR::to_tagged_value(40000u64, 5u8)), ("date", dcbor::Date::from_timestamp(0.5).into()), ("tagged 100", CBOR::to_tagged_value(100u64, "x")),
    ];
    let (name, v) = &vals[choice(vals.len())];
    rt::note(*name);
    let leaf = Envelope::new(v.clone());
    let e = match choice(5) {
        0 => leaf.clone(),
        1 => leaf.add_assertion("p1", "o1").add_assertion("p2", "o2"),
        2 => Envelope::new("s").add_assertion(leaf.clone(), "o1"),
        3 => Envelope::new("s").add_assertion("p", leaf.clone()).add_assertion("q", "r"),
        _ => Envelope::new("s").add_assertion("p", leaf.wrap_envelope()),
    };
    op("encode -> decode");
    let b = bytes(&e);
    let copies: Vec<(&str, anyhow::Result<Envelope>)> = vec![
        ("try_from_cbor_data", Envelope::try_from_cbor_data(b.clone())), ("TryFrom<CBOR>", Envelope::try_from(e.to_cbor())),
        ("from_untagged_cbor", Envelope::from_untagged_cbor(e.untagged_cbor())), ("from_ur_string", Envelope::from_ur_string(e.ur_string())),
    ];
    for (route, r) in copies {
        let d = match r { Ok(d) => d, Err(x) => return rt::viol("decode of own encoding failed", format!("{} via {}: {}", name, route, x)) };
        ensure!(d.is_equivalent_to(&e) && e.is_equivalent_to(&d), "re-decoded copy is not equivalent to the original", "{} via {}", name, route);
        ensure!(d.is_identical_to(&e) && e.is_identical_to(&d) && d == e, "re-decoded copy is not identical to the original", "{} via {}", name, route);
        ensure!(d.structural_digest() == e.structural_digest(), "re-decoded copy has another structural digest", "{} via {}", name, route);
        // an obscured variant of the copy against the original
        for act in 0..3 {
            op("obscure the leaf in the copy");
            let o = obscure_by(&d, &leaf, act);
            ensure!(o.is_equivalent_to(&e) && e.is_equivalent_to(&o), "obscured copy is not equivalent to the original", "{} via {} action {}", name, route, act);
            ensure!(!o.is_identical_to(&e) && !e.is_identical_to(&o) && o != e, "obscured copy is identical to the original", "{} via {} action {}", name, route, act);
            let od = must!(Envelope::try_from_cbor_data(bytes(&o)), "decode of own encoding failed");
            ensure!(od.is_identical_to(&o) && od == o && !od.is_identical_to(&e), "identity not preserved by encode -> decode of an obscured variant", "{} via {} action {}", name, route, act);
        }
    }
    Ok(())
}
fn obscure_by(e: &Envelope, target: &Envelope, act: usize) -> Envelope {
    let action = match act { 0 => ObscureAction::Elide, 1 => ObscureAction::Encrypt(bc_components::SymmetricKey::from_data([3u8; 32])), _ => ObscureAction::Compress };
    e.elide_removing_target_with_action(target, &action)
}

pub fn prop_c14() -> Prop {
    Prop {
        id: "C14",
        scenarios: vec![
            Scenario { name: "pairs", f: c14_pairs, thorough_only: false,
                bounds: "every shape of <=6 (quick) / <=7 (thorough) elements with unique content + larger shapes x every ordered pair from {original, re-decoded copy, unrelated envelope, same shape with other leaves, every single position (first 6/8) obscured by each of the 3 actions, every pair of disjoint positions obscured with 3 action pairs} x every digest order; the obscuration pattern is computed by the harness from its own choices, not from structural_digest",
                api: &["is_equivalent_to", "is_identical_to", "PartialEq::eq", "structural_digest", "elide_removing_set_with_action", "try_from_cbor_data"] },
            Scenario { name: "deep", f: c14_deep, thorough_only: false,
                bounds: "a leaf nested under 1, 2, 11..13, 22..26, 31 or 40 levels in 4 styles (wrappers, objects, predicates, alternating) x its four obscuration states (clear, elided, encrypted, compressed): pairwise identity / == / structural_digest, equivalence, identity across encode -> decode",
                api: &["is_identical_to", "is_equivalent_to", "PartialEq::eq", "structural_digest", "elide_removing_target_with_action", "try_from_cbor_data"] },
            Scenario { name: "decoded_values", f: c14_decoded_values, thorough_only: false,
                bounds: "22 leaf values (every major type, values tagged 24 / 201 / 200 / 40000, the CBOR of an envelope) x 5 positions x 4 decode routes: the re-decoded copy is identical and equivalent to the original; the copy with that leaf obscured by each action is equivalent, not identical, and stays so over another round trip (values: catalogue, not solver-quantified)",
                api: &["is_identical_to", "is_equivalent_to", "PartialEq::eq", "structural_digest", "try_from_cbor_data", "TryFrom<CBOR>", "from_untagged_cbor", "from_ur_string", "elide_removing_target_with_action"] },
            Scenario { name: "triples", f: c14_triples, thorough_only: false,
                bounds: "every shape of <=5 elements x every ordered triple of the same variant set (first 6 positions quick / 8 thorough): transitivity of identity and equivalence",
                api: &["is_equivalent_to", "is_identical_to"] },
        ],
        assumptions: COMMON_ASSUMPTIONS.to_vec(),
    }
}
