//! C07 Assembling the same information in any order yields the identical envelope
use super::{Prop, COMMON_ASSUMPTIONS};
use crate::engine::{op, Scenario};
use crate::refs::*;
use crate::rt::{self, choice, perm, R};
use crate::spec::{self, *};
use crate::{ensure, must};
use bc_envelope::prelude::*;
use dcbor::prelude::*;
use std::collections::{HashMap, HashSet};

fn bytes(e: &Envelope) -> Vec<u8> { e.tagged_cbor().to_cbor_data() }

fn subject_catalogue() -> Vec<Spec> {
    vec![l(90), k(1090), w(l(91)), a(l(92), l(93)), w(n(l(94), vec![a(l(95), l(96))])), el(l(97)), co(l(98))]
}
fn assertion_kind(i: usize, kind: usize) -> Spec {
    let b = (i as u32) * 10;
    match kind {
        0 => a(l(b + 1), l(b + 2)),
        1 => a(k(2000 + b as u64), l(b + 2)),
        2 => n(a(l(b + 1), l(b + 2)), vec![a(l(b + 3), l(b + 4))]), // decorated
        3 => el(a(l(b + 1), l(b + 2))),
        4 => n(a(l(901), l(902)), vec![a(l(b + 3), l(b + 4))]), // the SAME fact, decorated differently per index
        5 => a(l(b + 1), n(l(b + 2), vec![a(l(b + 3), l(b + 4))])),
        _ => co(a(l(b + 1), w(l(b + 2)))),
    }
}

fn newa2() -> Envelope { build(&a(l(832), l(833))) }

fn assembly() -> R {
    let thorough = rt::thorough();
    let nmax = if thorough { 5 } else { 4 };
    let nas = 1 + choice(nmax);
    let subjects = subject_catalogue();
    // every subject case for up to 2 assertions, three of them beyond (bound stated in evidence)
    let sub = &subjects[choice(if nas <= 2 || thorough { subjects.len() } else { 3 })];
    // kinds are symbolic for up to 3 assertions, plain beyond
    let kinds: Vec<usize> = (0..nas).map(|_| if nas <= 3 { choice(if thorough { 7 } else { 5 }) } else { 0 }).collect();
    let specs: Vec<Spec> = (0..nas).map(|i| assertion_kind(i, kinds[i])).collect();
    let s = build(sub);
    let s_bytes = bytes(&s);
    let parts: Vec<Envelope> = specs.iter().map(build).collect();
    let part_bytes: Vec<Vec<u8>> = parts.iter().map(bytes).collect();
    rt::note(format!("subject {} assertions [{}]", sub.show(), specs.iter().map(|x| x.show()).collect::<Vec<_>>().join(", ")));

    // route 1: listed order
    op("add_assertion_envelope");
    let mut e1 = s.clone();
    for p in &parts { e1 = must!(e1.add_assertion_envelope(p.clone()), "add refused a valid assertion"); }
    // route 2: solver-chosen permutation, then one solver-chosen element added again
    let order = perm(nas);
    let mut e2 = s.clone();
    for i in order.iter() {
        let before = bytes(&e2);
        let recv = e2.clone();
        e2 = must!(e2.add_assertion_envelope(parts[*i].clone()), "add refused a valid assertion");
        ensure!(bytes(&recv) == before, "receiver altered by add", "add_assertion_envelope altered its receiver");
    }
    ensure!(dg(&e1) == dg(&e2), "digest depends on insertion order", "order {:?}: digests differ", order);
    ensure!(bytes(&e1) == bytes(&e2), "bytes depend on insertion order", "order {:?}: same digest, different bytes", order);
    ensure!(e1.is_identical_to(&e2), "not identical across insertion orders", "order {:?}", order);
    // spec digest, independently
    let expect = spec_digest(&Spec::Node(Box::new(sub.clone()), specs.clone()));
    ensure!(dg(&e1) == expect, "digest differs from specification", "node digest != spec digest for {:?}", order);
    if let Err(m) = well_formed(&e1) { return rt::viol("assembled envelope not canonical", m); }
    ensure!(bytes(&s) == s_bytes, "subject altered", "operations altered the subject envelope they were applied to");
    for (p, b) in parts.iter().zip(&part_bytes) { ensure!(&bytes(p) == b, "argument altered", "an assertion passed as argument was altered"); }

    // one further obligation per path (sum, not product, of the auxiliary dimensions)
    match choice(7) {
        0 => {
            op("add_assertion_envelope (repeat)");
            let again_i = choice(nas);
            let again = must!(e2.add_assertion_envelope(parts[again_i].clone()), "re-add refused");
            ensure!(bytes(&again) == bytes(&e2), "add of present assertion not idempotent", "adding assertion {} again changed the envelope (order {:?})", again_i, order);
            // the same assertion in another obscuration state is present too (presence is by digest)
            for copy in [parts[again_i].elide(), parts[again_i].compress().unwrap_or_else(|_| parts[again_i].clone())] {
                let again3 = must!(e2.add_assertion_envelope(copy), "re-add refused");
                ensure!(again3.assertions().len() == e2.assertions().len() && dg(&again3) == dg(&e2), "add of an obscured copy of a present assertion not idempotent", "assertion {}", again_i);
            }
            // an equal assertion built afresh (not the same Rc) is also recognised as present
            let fresh = build(&specs[again_i]);
            if dg(&fresh) == dg(&parts[again_i]) {
                let again2 = must!(e2.add_assertion_envelope(fresh), "re-add refused");
                ensure!(bytes(&again2) == bytes(&e2), "add of equal assertion not idempotent", "assertion {}", again_i);
            }
        }
        1 => {
            op("add_assertion_envelopes");
            let permuted: Vec<Envelope> = order.iter().map(|i| parts[*i].clone()).collect();
            let e3 = must!(s.add_assertion_envelopes(&permuted), "add_assertion_envelopes refused");
            ensure!(bytes(&e3) == bytes(&e1), "bulk add differs from single adds", "add_assertion_envelopes({:?})", order);
            let e4 = s.add_assertions(&permuted);
            ensure!(bytes(&e4) == bytes(&e1), "bulk add differs from single adds", "add_assertions({:?})", order);
            // a batch that repeats one of its elements at any place, and a batch re-adding a present assertion
            let mut batch = permuted.clone();
            let (what, at) = (choice(nas), choice(nas + 1));
            batch.insert(at, permuted[what].clone());
            let e5 = s.add_assertions(&batch);
            ensure!(bytes(&e5) == bytes(&e1), "bulk add with a repeated element differs", "add_assertions with element {} repeated at {}", what, at);
            let e6 = must!(s.add_assertion_envelopes(&batch), "add_assertion_envelopes refused");
            ensure!(bytes(&e6) == bytes(&e1), "bulk add with a repeated element differs", "add_assertion_envelopes with element {} repeated at {}", what, at);
            let e7 = e1.add_assertions(&[parts[what].clone()]);
            ensure!(bytes(&e7) == bytes(&e1), "bulk add of a present assertion changed the envelope", "element {}", what);
            let e8 = e1.add_assertions_salted(&[parts[what].clone()], false);
            ensure!(bytes(&e8) == bytes(&e1), "bulk add of a present assertion changed the envelope", "add_assertions_salted(.., false) element {}", what);
        }
        2 => {
            op("remove_assertion");
            let extra = build(&a(l(800), l(801)));
            let plus = must!(e1.add_assertion_envelope(extra.clone()), "add refused");
            let plus_bytes = bytes(&plus);
            let minus = plus.remove_assertion(extra.clone());
            ensure!(bytes(&minus) == bytes(&e1), "add then remove does not restore", "add x; remove x changed the envelope");
            ensure!(bytes(&plus) == plus_bytes, "receiver altered by remove", "");
            let lone = must!(s.add_assertion_envelope(extra.clone()), "add refused").remove_assertion(extra.clone());
            ensure!(bytes(&lone) == s_bytes, "removing the last assertion does not yield the bare subject", "got {:?}", kind(&lone));
            let same = e1.remove_assertion(extra.clone());
            ensure!(bytes(&same) == bytes(&e1), "removing an absent assertion changed the envelope", "");
        }
        3 => {
            op("remove_assertion");
            let victim = choice(nas);
            let without = e1.remove_assertion(parts[victim].clone());
            ensure!(!without.assertions().iter().any(|x| dg(x) == dg(&parts[victim])), "removed assertion still present", "victim {}", victim);
            ensure!(without.assertions().len() == nas - 1, "remove dropped the wrong number of assertions", "victim {}: {} left of {}", victim, without.assertions().len(), nas);
            if nas == 1 { ensure!(bytes(&without) == s_bytes, "removing the last assertion does not yield the bare subject", ""); }
            else if let Err(m) = well_formed(&without) { return rt::viol("envelope after remove not canonical", m); }
            let back = must!(without.add_assertion_envelope(parts[victim].clone()), "add refused");
            ensure!(bytes(&back) == bytes(&e1), "remove then add does not restore", "victim {}", victim);
        }
        4 => {
            op("wrap_envelope/unwrap_envelope");
            let wr = e1.wrap_envelope();
            let un = must!(wr.unwrap_envelope(), "unwrap of wrapped failed");
            ensure!(bytes(&un) == bytes(&e1), "unwrap(wrap(e)) != e", "");
            ensure!(dg(&wr) == sha(&dg(&e1)), "wrapped digest differs from specification", "");
            // assertions on the wrapped envelope leave the interior alone
            let wa = must!(wr.add_assertion_envelope(build(&a(l(810), l(811)))), "add refused");
            let un2 = must!(wa.unwrap_envelope(), "unwrap failed");
            ensure!(bytes(&un2) == bytes(&e1), "unwrap after adding to the wrapper != original", "");
        }
        5 => {
            op("replace_subject");
            let ns = build(&l(850));
            let r = e1.replace_subject(ns.clone());
            let mut er = ns.clone();
            for p in &parts { er = must!(er.add_assertion_envelope(p.clone()), "add refused"); }
            ensure!(bytes(&r) == bytes(&er), "replace_subject differs from rebuilding", "");
            if let Err(m) = well_formed(&r) { return rt::viol("replace_subject result not canonical", m); }
            ensure!(bytes(&e1.replace_subject(s.clone())) == bytes(&e1), "replace_subject with the same subject changed the envelope", "");
        }
        _ => {
            op("replace_assertion");
            let victim = choice(nas);
            let newa = build(&a(l(820), l(821)));
            let r = must!(e1.replace_assertion(parts[victim].clone(), newa.clone()), "replace_assertion refused");
            let mut er = s.clone();
            for (i, p) in parts.iter().enumerate() { if i != victim { er = must!(er.add_assertion_envelope(p.clone()), "add refused"); } }
            er = must!(er.add_assertion_envelope(newa), "add refused");
            ensure!(bytes(&r) == bytes(&er), "replace_assertion differs from rebuilding", "victim {}", victim);
            if let Err(m) = well_formed(&r) { return rt::viol("replace_assertion result not canonical", m); }
            // replacement already present / target absent
            if nas >= 2 {
                let other = (victim + 1) % nas;
                let r2 = must!(e1.replace_assertion(parts[victim].clone(), parts[other].clone()), "replace_assertion refused");
                ensure!(bytes(&r2) == bytes(&e1.remove_assertion(parts[victim].clone())), "replacing by an assertion already present must just remove the target", "victim {} by {}", victim, other);
            }
            if nas > 2 { return Ok(()); } // (bounded: the absent-target form on nodes of <=2 assertions)
            let absent = build(&a(l(830), l(831)));
            let r3 = must!(e1.replace_assertion(absent.clone(), newa2()), "replace_assertion refused");
            ensure!(bytes(&r3) == bytes(&must!(e1.add_assertion_envelope(newa2()), "add refused")), "replacing an absent assertion must just add the new one", "");
        }
    }
    Ok(())
}

/// the convenience builders are defined by the primitive ones: same bytes, or the receiver unchanged
fn conveniences() -> R {
    let starts = vec![l(1), n(l(1), vec![a(l(2), l(3))]), n(k(1001), vec![a(l(2), l(3)), a(l(4), l(5))]), w(l(1)), n(el(l(1)), vec![a(l(2), l(3))])];
    let e = build(&starts[choice(starts.len())]);
    let b0 = bytes(&e);
    let (p, o) = (leaf_text(60), leaf_text(61));
    let direct = e.add_assertion(p.clone(), o.clone());
    let a_env = Envelope::new_assertion(p.clone(), o.clone());
    let same = |x: &Envelope, y: &Envelope, what: &str| -> R { if bytes(x) == bytes(y) { Ok(()) } else { rt::viol("convenience builder differs from the primitive operation", what.to_string()) } };
    match choice(12) {
        0 => { op("add_assertion_if"); same(&e.add_assertion_if(true, p.clone(), o.clone()), &direct, "add_assertion_if(true)")?; same(&e.add_assertion_if(false, p.clone(), o.clone()), &e, "add_assertion_if(false)")?; }
        1 => { op("add_assertion_envelope_if"); same(&must!(e.add_assertion_envelope_if(true, a_env.clone()), "refused"), &direct, "add_assertion_envelope_if(true)")?; same(&must!(e.add_assertion_envelope_if(false, a_env.clone()), "refused"), &e, "add_assertion_envelope_if(false)")?;
               ensure!(e.add_assertion_envelope_if(false, build(&l(9))).is_ok(), "add_assertion_envelope_if(false, ..) must not look at its argument", ""); ensure!(e.add_assertion_envelope_if(true, build(&l(9))).is_err(), "a non-assertion was accepted as assertion", ""); }
        2 => { op("add_optional_assertion"); same(&e.add_optional_assertion(p.clone(), Some(o.clone())), &direct, "add_optional_assertion(Some)")?; same(&e.add_optional_assertion(p.clone(), None::<String>), &e, "add_optional_assertion(None)")?; }
        3 => { op("add_nonempty_string_assertion"); same(&e.add_nonempty_string_assertion(p.clone(), o.clone()), &direct, "add_nonempty_string_assertion(non-empty)")?; same(&e.add_nonempty_string_assertion(p.clone(), ""), &e, "add_nonempty_string_assertion(empty)")?;
               same(&e.add_nonempty_string_assertion(p.clone(), " "), &e.add_assertion(p.clone(), " "), "add_nonempty_string_assertion(blank)")?; }
        4 => { op("add_optional_assertion_envelope"); same(&must!(e.add_optional_assertion_envelope(Some(a_env.clone())), "refused"), &direct, "add_optional_assertion_envelope(Some)")?; same(&must!(e.add_optional_assertion_envelope(None), "refused"), &e, "add_optional_assertion_envelope(None)")?;
               same(&must!(e.add_optional_assertion_envelope_salted(None, true), "refused"), &e, "add_optional_assertion_envelope_salted(None)")?; same(&must!(e.add_assertion_envelope_salted(a_env.clone(), false), "refused"), &direct, "add_assertion_envelope_salted(false)")?; }
        5 => { op("new_or_null / new_or_none"); same(&Envelope::new_or_null(Some(o.clone())), &Envelope::new(o.clone()), "new_or_null(Some)")?; same(&Envelope::new_or_null(None::<String>), &Envelope::null(), "new_or_null(None)")?;
               ensure!(Envelope::new_or_none(None::<String>).is_none(), "new_or_none(None) is not None", ""); same(&must_some(Envelope::new_or_none(Some(o.clone())))?, &Envelope::new(o.clone()), "new_or_none(Some)")?; }
        6 => { op("true / false / null"); let (t, f, nl) = (Envelope::r#true(), Envelope::r#false(), Envelope::null());
               ensure!(t.is_true() && !t.is_false() && !t.is_null() && f.is_false() && !f.is_true() && nl.is_null() && !nl.is_true() && !e.is_true() && !e.is_null(), "is_true / is_false / is_null wrong", "");
               ensure!(bytes(&t) == vec![0xd8, 0xc8, 0xd8, 0xc9, 0xf5] && bytes(&f) == vec![0xd8, 0xc8, 0xd8, 0xc9, 0xf4] && bytes(&nl) == vec![0xd8, 0xc8, 0xd8, 0xc9, 0xf6], "true / false / null encoding wrong", ""); }
        7 => { op("add_assertions_salted(false)"); let extra = [a_env.clone(), Envelope::new_assertion(leaf_text(62), leaf_text(63))]; let want = must!(e.add_assertion_envelopes(&extra), "refused"); same(&e.add_assertions_salted(&extra, false), &want, "add_assertions_salted(false)")?; same(&e.add_assertions(&extra), &want, "add_assertions")?; }
        8 => {
            // encrypt / decrypt are wrap + encrypt_subject / decrypt_subject + unwrap, for every receiver (a wrapped one too)
            op("encrypt / decrypt");
            let key = test_key();
            let x = e.encrypt(&key);
            ensure!(dg(&x) == dg(&e.wrap_envelope()) && kind(&x) == Kind::Encrypted, "encrypt() is not the encrypted wrapped receiver", "");
            same(&must!(x.decrypt(&key), "decrypt failed"), &e, "decrypt(encrypt(e))")?;
            same(&must!(must!(x.decrypt_subject(&key), "decrypt_subject failed").unwrap_envelope(), "unwrap failed"), &e, "decrypt_subject + unwrap_envelope of encrypt(e)")?;
            let y = must!(e.wrap_envelope().encrypt_subject(&key), "encrypt_subject failed");
            same(&must!(y.decrypt(&key), "decrypt failed"), &e, "decrypt of wrap_envelope + encrypt_subject")?;
        }
        9 => {
            // signature metadata given with a repeated assertion (adjacent or not) is the metadata without the repeat
            op("add_signature_opt (metadata with a repeated assertion)");
            let (sk, _) = bc_components::SignatureScheme::Ed25519.keypair_using(&mut super::c04::seeded_rng(9), "").unwrap();
            let (m1, m2, m3) = ((known_values::NOTE, leaf_text(64)), (leaf_text(65), leaf_text(66)), (leaf_text(67), leaf_text(68)));
            let plain = SignatureMetadata::new().with_assertion(m1.0.clone(), m1.1.clone()).with_assertion(m2.0.clone(), m2.1.clone()).with_assertion(m3.0.clone(), m3.1.clone());
            let want = e.add_signature_opt(&sk, None, Some(plain));
            if let Err(m) = well_formed(&want) { return rt::viol("signed envelope not canonical", m); }
            let seqs: [&[usize]; 5] = [&[0, 1, 0, 2], &[0, 0, 1, 2], &[2, 1, 0, 2], &[1, 2, 0, 1, 0], &[2, 0, 1]];
            let sq = seqs[choice(seqs.len())];
            let ms = [&m1.1, &m2.1, &m3.1];
            let mut md = SignatureMetadata::new();
            for &i in sq { md = if i == 0 { md.with_assertion(known_values::NOTE, ms[0].clone()) } else { md.with_assertion(if i == 1 { m2.0.clone() } else { m3.0.clone() }, ms[i].clone()) }; }
            let got = e.add_signature_opt(&sk, None, Some(md));
            if let Err(m) = well_formed(&got) { return rt::viol("signed envelope not canonical", format!("metadata order {:?}: {}", sq, m)); }
            same(&got, &want, &format!("signature metadata given in order {:?}", sq))?;
        }
        10 => {
            // extension adders are the plain add of the assertion they document: in any order, with repeats
            op("add_salt_instance / add_type / add_attachment against add_assertion");
            let (s1, s2) = (bc_components::Salt::from_data(vec![1u8; 9]), bc_components::Salt::from_data(vec![2u8; 12]));
            let want = e.add_assertion(known_values::SALT, s1.clone()).add_assertion(known_values::SALT, s2.clone());
            same(&e.add_salt_instance(s1.clone()).add_salt_instance(s2.clone()), &want, "add_salt_instance twice")?;
            same(&e.add_salt_instance(s2.clone()).add_salt_instance(s1.clone()).add_salt_instance(s2.clone()), &want, "add_salt_instance in the other order, one repeated")?;
            same(&e.add_salt_instance(s1.clone()).add_salt_instance(s2.clone()).remove_assertion(Envelope::new_assertion(known_values::SALT, s2.clone())), &e.add_assertion(known_values::SALT, s1.clone()), "add_salt_instance then remove")?;
            let (t1, t2) = (leaf_text(69), leaf_text(70));
            same(&e.add_type(t1.clone()).add_type(t2.clone()).add_type(t1.clone()), &e.add_assertion(known_values::IS_A, t2.clone()).add_assertion(known_values::IS_A, t1.clone()), "add_type")?;
            let pay = Envelope::new(leaf_text(71));
            let wa = must!(must!(e.add_assertion_envelope(Envelope::new_attachment(pay.clone(), "v", Some("f"))), "refused").add_assertion_envelope(Envelope::new_attachment(pay.clone(), "v", None::<&str>)), "refused");
            same(&e.add_attachment(pay.clone(), "v", Some("f")).add_attachment(pay.clone(), "v", None::<&str>), &wa, "add_attachment (format, then none)")?;
            same(&e.add_attachment(pay.clone(), "v", None::<&str>).add_attachment(pay.clone(), "v", Some("f")), &wa, "add_attachment (none, then format)")?;
        }
        _ => { op("From<&Envelope> / to_envelope"); same(&Envelope::from(&e), &e, "From<&Envelope>")?; same(&Envelope::new(e.clone()), &e, "Envelope::new(envelope)")?; same(&e.to_envelope(), &e, "to_envelope")?; }
    }
    ensure!(bytes(&e) == b0, "a convenience builder altered its receiver", "");
    Ok(())
}
fn must_some(x: Option<Envelope>) -> R<Envelope> { x.ok_or_else(|| rt::Stop::Viol { site: "unexpected None".into(), msg: String::new() }) }

/// obscured assertion elements whose digests the sender chose: digests that agree in all but the last byte
fn crafted_digests() -> R {
    use bc_envelope::base::envelope::EnvelopeCase;
    let n = 2 + choice(3);
    let mk = |i: usize| -> Envelope { let mut d = [0xabu8; 32]; d[31] = i as u8; if i == 3 { d[8] = 0; } Envelope::from(EnvelopeCase::Elided(Digest::from_data(d))) };
    let parts: Vec<Envelope> = (0..n).map(|i| if i == 2 { build(&a(l(5), l(6))) } else { mk(i) }).collect();
    let s = build(&l(1));
    let order = perm(n);
    op("add_assertion_envelope (elided elements with near-equal digests)");
    let mut e1 = s.clone(); for p in &parts { e1 = must!(e1.add_assertion_envelope(p.clone()), "add refused an elided element"); }
    let mut e2 = s.clone(); for i in &order { e2 = must!(e2.add_assertion_envelope(parts[*i].clone()), "add refused an elided element"); }
    ensure!(bytes(&e1) == bytes(&e2), "bytes depend on insertion order", "order {:?} with near-equal digests", order);
    if let Err(m) = well_formed(&e1) { return rt::viol("assembled envelope not canonical", m); }
    let back = must!(Envelope::try_from_cbor_data(bytes(&e2)), "decode of own encoding failed");
    ensure!(bytes(&back) == bytes(&e1), "round trip differs", "");
    Ok(())
}

/// unordered collections used as values: equal content, different insertion orders -> equal bytes.
/// The deciding code is dcbor's map ordering (executed concretely; no digest order involved).
fn collections() -> R {
    let n = 2 + choice(3);
    let order = perm(n);
    let keys: Vec<String> = (0..n).map(|i| format!("{}key{}", "x".repeat((i * 7) % 5), i)).collect();
    let which = choice(5);
    let pos = choice(3); // subject / predicate / object
    let mk = |idx: &[usize]| -> Envelope {
        let v: Envelope = match which {
            0 => { let mut m = HashMap::new(); for i in idx { m.insert(keys[*i].clone(), *i as u32); } Envelope::new(m) }
            1 => { let mut m = HashSet::new(); for i in idx { m.insert(keys[*i].clone()); } Envelope::new(m) }
            2 => { let mut m = Map::new(); for i in idx { m.insert(keys[*i].clone(), *i as u32); } Envelope::new(m) }
            3 => { let mut m = Set::new(); for i in idx { m.insert(keys[*i].clone()); } Envelope::new(m) }
            _ => { let mut m = HashMap::new(); for i in idx { m.insert(*i as i64 - 1, keys[*i].clone()); } Envelope::new(m) }
        };
        match pos { 0 => v.add_assertion("p", "o"), 1 => Envelope::new("s").add_assertion(v, "o"), _ => Envelope::new("s").add_assertion("p", v) }
    };
    op("Envelope::new(collection)");
    let base: Vec<usize> = (0..n).collect();
    let e1 = mk(&base);
    let e2 = mk(&order);
    ensure!(dg(&e1) == dg(&e2), "collection digest depends on insertion order", "kind {} order {:?}", which, order);
    ensure!(bytes(&e1) == bytes(&e2), "collection bytes depend on insertion order", "kind {} order {:?}", which, order);
    if let Err(m) = well_formed(&e1) { return rt::viol("collection envelope not canonical", m); }
    let _ = spec::sha;
    Ok(())
}

/// replacing an assertion by itself changes nothing; by an obscured form of itself it changes only that element
fn replace_same() -> R {
    let cat = spec::catalogue(7, true, false, false);
    let extra = vec![n(l(1), vec![a(l(2), l(3)), a(l(4), l(5)), a(l(6), l(7))]), n(l(1), vec![n(a(l(2), l(3)), vec![a(l(4), l(5))]), a(l(6), l(7))])];
    let i = choice(cat.len() + extra.len());
    let s = if i < cat.len() { &cat[i] } else { &extra[i - cat.len()] };
    let e = build(s);
    let asr = e.assertions();
    rt::assume(!asr.is_empty())?;
    let before = bytes(&e);
    let j = choice(asr.len());
    let form = choice(3);
    let twin = match form { 0 => asr[j].clone(), 1 => asr[j].elide(), _ => must!(asr[j].compress(), "compress failed") };
    op("replace_assertion (by itself / by an obscured form of itself)");
    let r = must!(e.replace_assertion(asr[j].clone(), twin.clone()), "replace refused");
    ensure!(bytes(&e) == before, "replace_assertion altered its receiver", "");
    ensure!(dg(&r) == dg(&e), "replacing an assertion by an element of the same digest changed the digest", "{} assertion {} form {}", s.show(), j, form);
    if form == 0 { ensure!(bytes(&r) == before, "replacing an assertion by itself changed the envelope", "{} assertion {}", s.show(), j); }
    let want = e.elide_removing_target_with_action(&asr[j], &match form { 1 => ObscureAction::Elide, _ => ObscureAction::Compress });
    if form != 0 { ensure!(bytes(&r) == bytes(&want), "replacing an assertion by its obscured form differs from obscuring it in place", "{} assertion {} form {}", s.show(), j, form); }
    // removing an absent assertion / replacing an absent assertion by a present one
    let absent = build(&a(l(900), l(901)));
    ensure!(bytes(&e.remove_assertion(absent.clone())) == before, "removing an absent assertion changed the envelope", "");
    Ok(())
}

pub fn prop() -> Prop {
    Prop {
        id: "C07",
        scenarios: vec![
            Scenario { name: "assembly", f: assembly, thorough_only: false,
                bounds: "subject in 7 cases (leaf, known value, wrapped leaf, assertion, wrapped node, elided, compressed) x 1..4 assertions (quick; 1..5 thorough), each of 5 (quick) / 7 (thorough) kinds when <=3 assertions (plain, known-value predicate, decorated, elided, the same fact decorated differently; thorough adds node object, compressed), plain beyond x every insertion permutation x one repetition at every place x every digest order; bulk add, add/remove round trips, wrap/unwrap, replace_subject",
                api: &["Envelope::new", "new_assertion", "add_assertion_envelope", "add_assertion_envelopes", "remove_assertion", "replace_subject", "wrap_envelope", "unwrap_envelope", "elide", "compress", "tagged_cbor", "digest", "is_identical_to"] },
            Scenario { name: "conveniences", f: conveniences, thorough_only: false,
                bounds: "5 receivers x 12 groups of convenience builders (add_salt_instance / add_type / add_attachment against the plain add of the assertion they document (two of each, both orders, a repeat, a removal), encrypt / decrypt against wrap + encrypt_subject / decrypt_subject + unwrap, signature metadata given with repeats and in another order (Ed25519), add_assertion_if, add_assertion_envelope_if, add_optional_assertion, add_nonempty_string_assertion, add_optional_assertion_envelope(_salted), new_or_null / new_or_none, true / false / null, add_assertions(_salted false), From<&Envelope> / to_envelope) against the primitive operation x every digest order",
                api: &["add_assertion_if", "add_assertion_envelope_if", "add_optional_assertion", "add_nonempty_string_assertion", "add_optional_assertion_envelope", "add_optional_assertion_envelope_salted", "new_or_null", "new_or_none", "true", "false", "null", "is_true", "is_false", "is_null", "add_assertions_salted"] },
            Scenario { name: "crafted_digests", f: crafted_digests, thorough_only: false,
                bounds: "2..4 assertion elements, all but one elided with sender-chosen digests that agree in the first 31 (one: first 8) bytes, every insertion permutation x every digest order",
                api: &["From<EnvelopeCase> for Envelope", "add_assertion_envelope", "try_from_cbor_data"] },
            Scenario { name: "replace_same", f: replace_same, thorough_only: false,
                bounds: "every node shape of <=7 elements with known values + 2 larger ones x every assertion x replacement {the assertion itself, its elided form, its compressed form} x every digest order",
                api: &["replace_assertion", "remove_assertion", "elide", "compress", "elide_removing_target_with_action"] },
            Scenario { name: "attachment_container", f: super::c17::c19_container, thorough_only: false,
                bounds: "2 host envelopes x every list of 1..3 attachments over 2 payloads x 2 vendors x conformsTo {none, 1 value, the empty string} (shared payloads and exact repeats included) x every collection order into the Attachments container, against add_attachment one by one x every digest order",
                api: &["Attachments::add", "Attachments::add_to_envelope", "Attachments::try_from_envelope", "add_attachment"] },
            Scenario { name: "collections", f: collections, thorough_only: false,
                bounds: "HashMap / HashSet / dcbor Map / dcbor Set / integer-keyed HashMap with 2..4 entries, every insertion permutation, at subject / predicate / object position. Decided by concrete execution of dcbor's key ordering (reported, not solver-decided)",
                api: &["EnvelopeEncodable for HashMap/HashSet/Map/Set", "add_assertion"] },
        ],
        assumptions: COMMON_ASSUMPTIONS.to_vec(),
    }
}
