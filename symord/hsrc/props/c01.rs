//! C01 Digest tree of every envelope matches the specification
use super::{Prop, COMMON_ASSUMPTIONS};
use crate::engine::{op, Scenario};
use crate::refs::*;
use crate::rt::{self, choice, R};
use crate::spec::{self, *};
use crate::{ensure, must};
use bc_envelope::prelude::*;
#[allow(unused_imports)]
use dcbor::prelude::*;

fn bytes(e: &Envelope) -> Vec<u8> { e.tagged_cbor().to_cbor_data() }

/// permute the assertion lists of every node of a spec with solver-chosen permutations (top two nodes only)
fn permute_nodes(s: &Spec, budget: &mut usize) -> Spec {
    match s {
        Spec::Node(sub, a) => {
            let sub2 = permute_nodes(sub, budget);
            let a2: Vec<Spec> = a.iter().map(|x| permute_nodes(x, budget)).collect();
            if a2.len() > 1 && *budget > 0 {
                *budget -= 1;
                let p = rt::perm(a2.len());
                Spec::Node(Box::new(sub2), p.into_iter().map(|i| a2[i].clone()).collect())
            } else { Spec::Node(Box::new(sub2), a2) }
        }
        Spec::Wrap(x) => Spec::Wrap(Box::new(permute_nodes(x, budget))),
        Spec::Assert(p, o) => Spec::Assert(Box::new(permute_nodes(p, budget)), Box::new(permute_nodes(o, budget))),
        o => o.clone(),
    }
}

/// every shape x every route that can produce it: digest() at every position == specification
fn routes() -> R {
    let cat = if rt::thorough() { spec::catalogue(10, true, false, true) } else { spec::catalogue(8, true, false, true) };
    let s = &cat[choice(cat.len())];
    rt::note(s.show());
    let has_node_subject_node = s.show().contains("] ["); // decoder-only shapes keep their listed order
    let route = choice(8);
    let e = match route {
        0 => { op("construct"); build(s) }
        1 => {
            op("construct (permuted insertion)");
            rt::assume(!has_node_subject_node)?;
            let mut b = 2;
            let sp = permute_nodes(s, &mut b);
            rt::assume(b < 2)?; // something was permuted
            build(&sp)
        }
        2 => { op("encode->decode"); let e = build(s); must!(Envelope::try_from_cbor_data(bytes(&e)), "decode of own encoding failed") }
        3 => {
            op("wrap->unwrap, ur round trip");
            let e = build(s);
            let w = e.wrap_envelope();
            if let Err(m) = conforms(&w, &Spec::Wrap(Box::new(s.clone()))) { return rt::viol("wrapped envelope digest tree differs from specification", m); }
            let u = must!(w.unwrap_envelope(), "unwrap failed");
            must!(Envelope::from_ur_string(u.ur_string()), "UR round trip failed")
        }
        4 => {
            op("encrypt_subject->decrypt_subject");
            let e = build(s);
            let key = test_key();
            match e.encrypt_subject(&key) {
                Ok(x) => {
                    ensure!(dg(&x) == spec_digest(s), "encrypted form digest differs from specification", "{}", s.show());
                    ensure!(dg(&x.subject()) == dg(&e.subject()), "encrypted subject digest differs from the declared one", "");
                    must!(x.decrypt_subject(&key), "decrypt with the right key failed")
                }
                Err(_) => { // only already-obscured subjects may be refused
                    ensure!(matches!(kind(&e.subject()), Kind::Encrypted | Kind::Elided), "encrypt_subject refused a plain subject", "{:?}", kind(&e.subject()));
                    e
                }
            }
        }
        5 => {
            op("compress->uncompress / compress_subject->uncompress_subject");
            let e = build(s);
            if choice(2) == 0 {
                rt::assume(kind(&e) != Kind::Compressed)?;
                match e.compress() {
                    Ok(c) => { ensure!(dg(&c) == spec_digest(s), "compressed form digest differs from specification", ""); must!(c.uncompress(), "uncompress failed") }
                    Err(_) => { ensure!(matches!(kind(&e), Kind::Encrypted | Kind::Elided), "compress refused a plain envelope", ""); e }
                }
            } else {
                rt::assume(kind(&e.subject()) != Kind::Compressed)?;
                match e.compress_subject() {
                    Ok(c) => { ensure!(dg(&c) == spec_digest(s), "compress_subject form digest differs from specification", ""); must!(c.uncompress_subject(), "uncompress_subject failed") }
                    Err(_) => { ensure!(matches!(kind(&e.subject()), Kind::Encrypted | Kind::Elided), "compress_subject refused a plain subject", ""); e }
                }
            }
        }
        6 => {
            op("remove_assertion->add_assertion_envelope / replace_subject");
            let e = build(s);
            let asr = e.assertions();
            rt::assume(!asr.is_empty() && !has_node_subject_node)?;
            let i = choice(asr.len());
            let without = e.remove_assertion(asr[i].clone());
            let back = must!(without.add_assertion_envelope(asr[i].clone()), "re-add refused");
            let again = back.replace_subject(back.subject());
            ensure!(bytes(&again) == bytes(&back), "replace_subject(same subject) changed the envelope", "");
            again
        }
        _ => {
            // obscure one position, compare with the spec that has that position obscured
            op("elide_removing_target_with_action");
            let e = build(s);
            let paths = spec_paths(s);
            let pi = choice(paths.len());
            let how = choice(3);
            let Some(s2) = obscure_at(s, &paths[pi], how) else { return Err(rt::Stop::Skip) };
            let target = spec_digest(spec_at(s, &paths[pi]).unwrap());
            // a digest occurring at several positions is obscured at all of them: only single-occurrence targets here
            rt::assume(positions(&e).iter().filter(|p| p.d == target).count() == 1)?;
            let tset = to_set(&[target]);
            let action = match how { 0 => ObscureAction::Elide, 1 => ObscureAction::Encrypt(test_key()), _ => ObscureAction::Compress };
            let r = e.elide_removing_set_with_action(&tset, &action);
            if let Err(m) = conforms(&r, &s2) { return rt::viol("digest tree after obscuring differs from specification", format!("{} -> {}: {}", s.show(), s2.show(), m)); }
            if let Err(m) = check_tree(&r) { return rt::viol("stored digests disagree with recomputation", m); }
            return Ok(());
        }
    };
    if let Err(m) = conforms(&e, s) { return rt::viol("digest tree differs from specification", format!("route {} shape {}: {}", route, s.show(), m)); }
    if let Err(m) = check_tree(&e) { return rt::viol("stored digests disagree with recomputation", format!("route {}: {}", route, m)); }
    // what walk() hands to its visitor carries the same digests
    let seen = std::cell::RefCell::new(vec![]);
    let visitor = |x: Envelope, _l: usize, _e: EdgeType, _p: Option<&()>| -> Option<&()> { seen.borrow_mut().push(dg(&x)); None };
    e.walk(false, &visitor);
    let want: Vec<D> = positions(&e).into_iter().map(|p| p.d).collect();
    ensure!(*seen.borrow() == want, "walk reports other digests than the structure", "");
    Ok(())
}

/// mutating operations against the shape the specification says they produce: the result's digest is the
/// specification's digest of that shape (computed independently), whatever entry point was used
fn mutated() -> R {
    let cat = spec::catalogue(5, true, false, false);
    let extra = vec![
        n(l(1), vec![a(l(2), l(3)), a(l(4), l(5)), a(l(6), l(7))]),
        n(k(1001), vec![a(k(1002), l(3)), a(l(4), w(l(5))), a(l(6), l(7)), a(l(8), l(9))]),
        n(w(l(1)), vec![n(a(l(2), l(3)), vec![a(l(4), l(5))]), a(l(6), l(7))]),
    ];
    let i = choice(cat.len() + extra.len());
    let s = if i < cat.len() { cat[i].clone() } else { extra[i - cat.len()].clone() };
    let Spec::Node(sub, asr) = &s else { return Err(rt::Stop::Skip) };
    if matches!(**sub, Spec::Node(..)) { return Err(rt::Stop::Skip); }
    let e = build(&s);
    let nas = asr.len();
    let node = |sub: &Spec, v: Vec<Spec>| -> Spec { if v.is_empty() { sub.clone() } else { Spec::Node(Box::new(sub.clone()), v) } };
    let fresh = a(l(900), l(901));
    let k = choice(10);
    let j = choice(nas);
    let (r, want): (Envelope, Spec) = match k {
        0 => { op("add_assertion_envelope (already present)"); (must!(e.add_assertion_envelope(build(&asr[j])), "add refused"), s.clone()) }
        1 => { op("add_assertion_envelope (elided form of a present assertion)"); (must!(e.add_assertion_envelope(build(&asr[j]).elide()), "add refused"), s.clone()) }
        2 => { op("remove_assertion"); let mut v = asr.clone(); v.remove(j); (e.remove_assertion(build(&asr[j])), node(sub, v)) }
        3 => { op("replace_assertion (by a new assertion)"); let mut v = asr.clone(); v[j] = fresh.clone(); (must!(e.replace_assertion(build(&asr[j]), build(&fresh)), "replace refused"), node(sub, v)) }
        4 => {
            op("replace_assertion (by another assertion already present, clear or elided)");
            if nas < 2 { return Err(rt::Stop::Skip); }
            let i2 = (j + 1 + choice(nas - 1)) % nas;
            let twin = if choice(2) == 0 { build(&asr[i2]) } else { build(&asr[i2]).elide() };
            let mut v = asr.clone(); v.remove(j);
            (must!(e.replace_assertion(build(&asr[j]), twin), "replace refused"), node(sub, v))
        }
        5 => { op("add_assertion_envelope_salted(false) (already present)"); (must!(e.add_assertion_envelope_salted(build(&asr[j]), false), "add refused"), s.clone()) }
        6 => { op("add_assertions_salted(false) (already present)"); (e.add_assertions_salted(&[build(&asr[j]), build(&asr[(j + 1) % nas])], false), s.clone()) }
        7 => { op("add_assertion_salted(false) (new, twice)"); let mut v = asr.clone(); v.push(fresh.clone()); (e.add_assertion_salted(leaf_text(900), leaf_text(901), false).add_assertion_salted(leaf_text(900), leaf_text(901), false), node(sub, v)) }
        8 => { op("replace_subject"); (e.replace_subject(build(&l(950))), node(&l(950), asr.clone())) }
        _ => { op("add_assertion_envelopes (present and new)"); let mut v = asr.clone(); v.push(fresh.clone()); (must!(e.add_assertion_envelopes(&[build(&asr[j]), build(&fresh), build(&fresh)]), "add refused"), node(sub, v)) }
    };
    rt::note(format!("{} op {} -> {}", s.show(), k, want.show()));
    ensure!(dg(&r) == spec_digest(&want), "digest after a mutating operation differs from the specification's digest of the resulting shape", "{} after {}: expected the digest of {}", s.show(), crate::engine::cur_op(), want.show());
    let wn = match &want { Spec::Node(_, v) => v.len(), _ => 0 };
    ensure!(r.assertions().len() == wn, "a mutating operation left another number of assertions than the resulting shape has", "{} vs {} ({} after {})", r.assertions().len(), wn, s.show(), crate::engine::cur_op());
    if let Err(m) = check_tree(&r) { return rt::viol("stored digests disagree with recomputation", m); }
    Ok(())
}

struct Golden { name: &'static str, make: fn() -> Envelope, hex: &'static str }
fn goldens() -> Vec<Golden> {
    vec![
        Golden { name: "0", make: || Envelope::new(0u8), hex: "00" },
        Golden { name: "23", make: || Envelope::new(23u8), hex: "17" },
        Golden { name: "24", make: || Envelope::new(24u16), hex: "1818" },
        Golden { name: "255", make: || Envelope::new(255u32), hex: "18ff" },
        Golden { name: "256", make: || Envelope::new(256u64), hex: "190100" },
        Golden { name: "65535", make: || Envelope::new(65535u32), hex: "19ffff" },
        Golden { name: "65536", make: || Envelope::new(65536u32), hex: "1a00010000" },
        Golden { name: "2^32-1", make: || Envelope::new(u32::MAX), hex: "1affffffff" },
        Golden { name: "2^32", make: || Envelope::new(1u64 << 32), hex: "1b0000000100000000" },
        Golden { name: "u64::MAX", make: || Envelope::new(u64::MAX), hex: "1bffffffffffffffff" },
        Golden { name: "-1", make: || Envelope::new(-1i8), hex: "20" },
        Golden { name: "-24", make: || Envelope::new(-24i16), hex: "37" },
        Golden { name: "-25", make: || Envelope::new(-25i32), hex: "3818" },
        Golden { name: "-257", make: || Envelope::new(-257i64), hex: "390100" },
        Golden { name: "i64::MIN", make: || Envelope::new(i64::MIN), hex: "3b7fffffffffffffff" },
        Golden { name: "1.5", make: || Envelope::new(1.5f64), hex: "f93e00" },
        Golden { name: "2.0 (reducible)", make: || Envelope::new(2.0f64), hex: "02" },
        Golden { name: "-3.0f32 (reducible)", make: || Envelope::new(-3.0f32), hex: "22" },
        Golden { name: "1.1", make: || Envelope::new(1.1f64), hex: "fb3ff199999999999a" },
        Golden { name: "3.5f32", make: || Envelope::new(3.5f32), hex: "f94300" },
        Golden { name: "100000.5 (f32 width)", make: || Envelope::new(100000.5f64), hex: "fa47c35040" },
        Golden { name: "1e10 (reducible)", make: || Envelope::new(1.0e10f64), hex: "1b00000002540be400" },
        Golden { name: "inf", make: || Envelope::new(f64::INFINITY), hex: "f97c00" },
        Golden { name: "nan", make: || Envelope::new(f64::NAN), hex: "f97e00" },
        Golden { name: "empty text", make: || Envelope::new(""), hex: "60" },
        Golden { name: "Hello", make: || Envelope::new("Hello"), hex: "6548656c6c6f" },
        Golden { name: "e-acute NFC", make: || Envelope::new("\u{e9}"), hex: "62c3a9" },
        Golden { name: "CJK + emoji", make: || Envelope::new("\u{6c34}\u{1f600}"), hex: "67e6b0b4f09f9880" },
        Golden { name: "24-char text", make: || Envelope::new("abcdefghijklmnopqrstuvwx"), hex: "78186162636465666768696a6b6c6d6e6f707172737475767778" },
        Golden { name: "bytes", make: || Envelope::new(dcbor::ByteString::from(vec![1u8, 2, 3])), hex: "43010203" },
        Golden { name: "bytes that are one encoded item", make: || Envelope::new(dcbor::ByteString::from(vec![0x18u8, 0x2a])), hex: "42182a" },
        Golden { name: "empty bytes", make: || Envelope::new(dcbor::ByteString::from(Vec::<u8>::new())), hex: "40" },
        Golden { name: "true", make: || Envelope::new(true), hex: "f5" },
        Golden { name: "false", make: Envelope::r#false, hex: "f4" },
        Golden { name: "null", make: Envelope::null, hex: "f6" },
        Golden { name: "array", make: || Envelope::new(vec![1u8, 2, 3]), hex: "83010203" },
        Golden { name: "nested array", make: || Envelope::new(CBOR::from(vec![CBOR::from(1u8), CBOR::from(vec![2u8, 3])])), hex: "8201820203" },
        Golden { name: "map (keys sorted by encoding)", make: || { let mut m = Map::new(); m.insert(10u8, 1u8); m.insert("a", 2u8); m.insert(-1i8, 3u8); m.insert(100u8, 4u8); Envelope::new(m) }, hex: "a40a011864042003616102" },
        Golden { name: "tagged", make: || Envelope::new(CBOR::to_tagged_value(100u64, "x")), hex: "d8646178" },
        // values that are themselves the tagged CBOR of an envelope (or carry the leaf tag): still leaves
        Golden { name: "CBOR of a leaf envelope", make: || Envelope::new(Envelope::new("x").to_cbor()), hex: "d8c8d8c96178" },
        Golden { name: "CBOR of a known-value envelope", make: || Envelope::new(Envelope::new(KnownValue::new(4)).to_cbor()), hex: "d8c804" },
        Golden { name: "CBOR of an assertion envelope", make: || Envelope::new(Envelope::new_assertion("p", "o").to_cbor()), hex: "d8c8a1d8c96170d8c9616f" },
        Golden { name: "CBOR of a node envelope", make: || Envelope::new(Envelope::new("s").add_assertion("p", "o").to_cbor()), hex: "d8c882d8c96173a1d8c96170d8c9616f" },
        Golden { name: "CBOR of a wrapped envelope", make: || Envelope::new(Envelope::new("x").wrap_envelope().to_cbor()), hex: "d8c8d8c8d8c96178" },
        Golden { name: "value tagged #6.201", make: || Envelope::new(CBOR::to_tagged_value(201u64, "x")), hex: "d8c96178" },
        Golden { name: "value tagged #6.200 that is no envelope", make: || Envelope::new(CBOR::to_tagged_value(200u64, "x")), hex: "d8c86178" },
        Golden { name: "value tagged #6.24", make: || Envelope::new(CBOR::to_tagged_value(24u64, dcbor::ByteString::from(vec![0x61u8, 0x78]))), hex: "d818426178" },
        Golden { name: "date (epoch 0)", make: || Envelope::new(dcbor::Date::from_timestamp(0.0)), hex: "c100" },
        Golden { name: "date (fractional)", make: || Envelope::new(dcbor::Date::from_timestamp(1.5)), hex: "c1f93e00" },
        Golden { name: "date (negative)", make: || Envelope::new(dcbor::Date::from_timestamp(-100.0)), hex: "c13863" },
    ]
}

/// leaf CBOR types: digest = SHA-256 of the (hand-written) dCBOR bytes, at every position kind,
/// through construction and through decode. Values are a catalogue, not solver-quantified.
fn leaf_values() -> R {
    let gs = goldens();
    let g = &gs[choice(gs.len())];
    rt::note(g.name);
    op("Envelope::new(leaf value)");
    let leaf = (g.make)();
    let raw = hex::decode(g.hex).unwrap();
    let want = sha(&raw);
    ensure!(kind(&leaf) == Kind::Leaf, "leaf value did not become a leaf", "{}", g.name);
    ensure!(dg(&leaf) == want, "leaf digest differs from SHA-256 of its dCBOR", "{}: digest {} expected sha256({})", g.name, hex::encode(&dg(&leaf)[..6]), g.hex);
    let mut enc = vec![0xd8, 0xc8, 0xd8, 0xc9]; enc.extend_from_slice(&raw);
    ensure!(bytes(&leaf) == enc, "leaf encoding differs from #6.200(#6.201(dCBOR))", "{}: {}", g.name, hex::encode(bytes(&leaf)));
    // at each position kind
    let other = build(&l(500));
    let (e, path): (Envelope, Vec<usize>) = match choice(5) {
        0 => (leaf.add_assertion_envelope(build(&a(l(501), l(502)))).unwrap(), vec![0]),
        1 => (other.add_assertion(leaf.clone(), "o"), vec![1, 0]),
        2 => (other.add_assertion("p", leaf.clone()), vec![1, 1]),
        3 => (leaf.wrap_envelope(), vec![0]),
        _ => (other.add_assertion_envelope(Envelope::new_assertion("p", "o").add_assertion("q", leaf.clone())).unwrap(), vec![1, 1, 1]),
    };
    let ps = positions(&e);
    let p = crate::must_some!(at(&ps, &path), "leaf not found at its position");
    ensure!(p.d == want, "leaf digest changed by its position", "{} at {:?}", g.name, path);
    if let Err(m) = check_tree(&e) { return rt::viol("stored digests disagree with recomputation", m); }
    op("decode");
    let back = must!(Envelope::try_from_cbor_data(bytes(&e)), "decode of own encoding failed");
    let pb = positions(&back);
    let q = crate::must_some!(at(&pb, &path), "leaf not found after decode");
    ensure!(q.d == want && q.kind == Kind::Leaf, "decoded leaf digest differs from SHA-256 of its dCBOR", "{}", g.name);
    ensure!(dg(&back) == dg(&e), "decoded envelope has another digest", "{}", g.name);
    // the tolerated legacy spelling of the leaf marker (#6.24 for #6.201): if it is read at all, it is read as the same leaf
    op("decode (#6.24 leaf marker)");
    let mut legacy = vec![0xd8, 0xc8, 0xd8, 0x18]; legacy.extend_from_slice(&raw);
    if let Ok(x) = Envelope::try_from_cbor_data(legacy) {
        ensure!(kind(&x) == Kind::Leaf && dg(&x) == want, "leaf read through the #6.24 marker has another digest than SHA-256 of its dCBOR", "{}", g.name);
        ensure!(bytes(&x) == enc, "leaf read through the #6.24 marker re-encodes to another leaf", "{}", g.name);
    }
    Ok(())
}

/// known values: digest = SHA-256(#6.40000(n)); envelope encoding = #6.200(n)
fn known_values() -> R {
    let vals: [(u64, &str); 8] = [(0, "00"), (1, "01"), (23, "17"), (24, "1818"), (255, "18ff"), (256, "190100"), (65536, "1a00010000"), (u64::MAX, "1bffffffffffffffff")];
    let (v, h) = vals[choice(vals.len())];
    op("Envelope::new(KnownValue)");
    let e = Envelope::new(KnownValue::new(v));
    let mut img = vec![0xd9, 0x9c, 0x40]; img.extend(hex::decode(h).unwrap());
    ensure!(dg(&e) == sha(&img), "known value digest differs from SHA-256(#6.40000(n))", "value {}", v);
    let mut enc = vec![0xd8, 0xc8]; enc.extend(hex::decode(h).unwrap());
    ensure!(bytes(&e) == enc, "known value encoding differs from #6.200(n)", "value {}", v);
    // same digest whether named or not
    let named = Envelope::new(KnownValue::new_with_name(v, "someName".to_string()));
    ensure!(dg(&named) == dg(&e), "known value digest depends on its name", "value {}", v);
    // as predicate
    let a = Envelope::new_assertion(KnownValue::new(v), "o");
    let mut ai = sha(&img).to_vec(); ai.extend_from_slice(&sha(&spec::cbor_text("o")));
    ensure!(dg(&a) == sha(&ai), "assertion digest differs from SHA-256(pred||obj)", "known value {}", v);
    let back = must!(Envelope::try_from_cbor_data(bytes(&a)), "decode failed");
    ensure!(dg(&back) == dg(&a), "decoded assertion has another digest", "");
    Ok(())
}

pub fn prop() -> Prop {
    Prop {
        id: "C01",
        scenarios: vec![
            Scenario { name: "routes", f: routes, thorough_only: false,
                bounds: "every envelope shape of <=8 elements (quick) / <=10 (thorough) from the grammar leaf | known value | wrapped | assertion | node(<=3 assertions) | decorated assertion, plus 21 hand-written larger shapes (3-4 assertions, nested nodes, obscured children, node whose subject is a node, repeated content) x 8 routes (construct; permuted insertion; encode->decode; wrap->unwrap + UR; encrypt->decrypt; compress->uncompress (whole / subject); remove->add + replace_subject; obscure any single position with any of the 3 actions) x every digest order; at every position digest() == SHA-256 rule of the specification computed with sha2 in the harness",
                api: &["Envelope::new", "new_assertion", "add_assertion_envelope", "wrap_envelope", "unwrap_envelope", "try_from_cbor_data", "ur_string", "from_ur_string", "encrypt_subject", "decrypt_subject", "compress", "uncompress", "compress_subject", "uncompress_subject", "remove_assertion", "replace_subject", "elide_removing_set_with_action", "walk", "digest"] },
            Scenario { name: "mutated", f: mutated, thorough_only: false,
                bounds: "every node shape of <=5 elements with known values + 3 larger ones (3-4 assertions, decorated assertion, wrapped subject) x 10 mutating operations (add present / its elided form, remove, replace by new / by another present one (clear or elided), unsalted salted-family adds of present and new assertions, bulk add with repeats, replace_subject) x every argument position x every digest order: digest == independently computed digest of the shape the operation is documented to give",
                api: &["add_assertion_envelope", "remove_assertion", "replace_assertion", "add_assertion_envelope_salted", "add_assertions_salted", "add_assertion_salted", "add_assertion_envelopes", "replace_subject"] },
            Scenario { name: "leaf_values", f: leaf_values, thorough_only: false,
                bounds: "41 leaf values (unsigned/negative integer width boundaries, reducible and irreducible floats, inf/nan, NFC and non-ASCII text, byte strings, bool/null, arrays, map, tagged, dates) x 5 positions (subject, predicate, object, wrapped, object of an assertion on an assertion), constructed and decoded; expected digests are SHA-256 of hand-written dCBOR bytes. Catalogue, not solver-quantified",
                api: &["Envelope::new(T) for numeric/text/bytes/bool/array/map/tagged/date", "try_from_cbor_data"] },
            Scenario { name: "known_values", f: known_values, thorough_only: false,
                bounds: "8 known values at the integer width boundaries, named and unnamed, bare and as predicate",
                api: &["Envelope::new(KnownValue)", "new_assertion"] },
        ],
        assumptions: COMMON_ASSUMPTIONS.to_vec(),
    }
}
