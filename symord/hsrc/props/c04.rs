//! C04 Every envelope the library emits is canonical and well-formed (operation sequences)
//! C05 Serialization round-trips exactly
//! C06 The decoder accepts only canonical well-formed envelopes and never crashes
use super::{Prop, COMMON_ASSUMPTIONS};
use crate::engine::{op, Scenario};
use crate::refs::*;
use crate::rt::{self, choice, R};
use crate::spec::{self, *};
use crate::{ensure, must};
use bc_components::{EncapsulationScheme, SignatureScheme};
use bc_envelope::prelude::*;
use bc_envelope::EnvelopeError;
#[allow(unused_imports)]
use dcbor::prelude::*;

fn bytes(e: &Envelope) -> Vec<u8> { e.tagged_cbor().to_cbor_data() }

pub fn seeded_rng(salt: u64) -> bc_rand::SeededRandomNumberGenerator {
    bc_rand::SeededRandomNumberGenerator::new([rt::nonce(), salt, 0x1234_5678, 0x9abc_def0])
}

// ------------------------------------------------------------------------------------ C04

const N_OPS: usize = 33;
/// apply operation `k`; Ok(None) = operation not applicable to this state (documented error returned)
fn apply(k: usize, e: &Envelope, step: u32) -> R<Option<Envelope>> {
    let fresh = |j: u32| 700 + step * 20 + j;
    let key = test_key();
    Ok(match k {
        0 => { op("add_assertion"); Some(e.add_assertion(leaf_text(fresh(0)), leaf_text(fresh(1)))) }
        1 => { op("add_assertion_envelope (duplicate)"); let a = e.assertions(); if a.is_empty() { return Ok(None); } let i = choice(a.len()); Some(must!(e.add_assertion_envelope(a[i].clone()), "re-add refused")) }
        2 => { op("remove_assertion (present)"); let a = e.assertions(); if a.is_empty() { return Ok(None); } let i = choice(a.len()); Some(e.remove_assertion(a[i].clone())) }
        3 => { op("remove_assertion (absent)"); let r = e.remove_assertion(build(&a(l(fresh(2)), l(fresh(3))))); ensure!(bytes(&r) == bytes(e), "removing an absent assertion changed the envelope", ""); Some(r) }
        4 => { op("replace_assertion"); let asr = e.assertions(); if asr.is_empty() { return Ok(None); } let i = choice(asr.len()); Some(must!(e.replace_assertion(asr[i].clone(), build(&a(l(fresh(4)), l(fresh(5))))), "replace refused")) }
        5 => { op("replace_subject (leaf)"); Some(e.replace_subject(build(&l(fresh(6))))) }
        6 => { op("replace_subject (node)"); Some(e.replace_subject(build(&n(l(fresh(7)), vec![a(l(fresh(8)), l(fresh(9)))])))) }
        7 => { op("wrap_envelope"); Some(e.wrap_envelope()) }
        8 => { op("unwrap_envelope"); match e.unwrap_envelope() { Ok(x) => Some(x), Err(_) => { ensure!(kind(&e.subject()) != Kind::Wrapped, "unwrap refused a wrapped subject", ""); None } } }
        9 => { op("elide_removing_target"); let ps = positions(e); let i = choice(ps.len().min(8)); Some(e.elide_removing_target(&ps[i].env)) }
        10 => { op("elide_revealing_array"); let s = e.subject(); Some(e.elide_revealing_array(&[e, &s])) }
        11 => { op("compress"); match e.compress() { Ok(x) => Some(x), Err(_) => { ensure!(matches!(kind(e), Kind::Elided | Kind::Encrypted), "compress refused", ""); None } } }
        12 => { op("compress_subject"); match e.compress_subject() { Ok(x) => Some(x), Err(_) => { ensure!(matches!(kind(&e.subject()), Kind::Elided | Kind::Encrypted), "compress_subject refused", ""); None } } }
        13 => { op("uncompress"); match e.uncompress() { Ok(x) => Some(x), Err(_) => { ensure!(kind(e) != Kind::Compressed, "uncompress refused a compressed envelope", ""); None } } }
        14 => { op("uncompress_subject"); Some(must!(e.uncompress_subject(), "uncompress_subject failed")) }
        15 => { op("encrypt_subject"); match e.encrypt_subject(&key) { Ok(x) => Some(x), Err(_) => { ensure!(matches!(kind(&e.subject()), Kind::Elided | Kind::Encrypted), "encrypt_subject refused", ""); None } } }
        16 => { op("decrypt_subject"); match e.decrypt_subject(&key) { Ok(x) => Some(x), Err(_) => { ensure!(kind(&e.subject()) != Kind::Encrypted, "decrypt_subject with the right key refused", ""); None } } }
        17 => { op("add_salt_instance"); Some(e.add_salt_instance(bc_components::Salt::from_data(vec![step as u8 + 1; 16]))) }
        18 => { op("add_assertion_salted"); Some(e.add_assertion_salted(leaf_text(fresh(10)), leaf_text(fresh(11)), true)) }
        19 => { op("add_signature"); let (sk, _) = SignatureScheme::Ed25519.keypair_using(&mut seeded_rng(3), "").unwrap(); Some(e.add_signature(&sk)) }
        20 => { op("add_recipient"); let (_, pk) = EncapsulationScheme::X25519.keypair_using(&mut seeded_rng(4)).unwrap(); Some(e.add_recipient(&pk, &key)) }
        21 => { op("add_type"); Some(e.add_type(leaf_text(fresh(12)))) }
        22 => { op("add_attachment"); Some(e.add_attachment(leaf_text(fresh(13)), "com.example", if step % 2 == 0 { Some("https://example.com/v1") } else { None })) }
        23 => {
            // an assertion already present, offered again in another obscuration state: present is decided by digest
            op("add_assertion_envelope (obscured copy of a present assertion)");
            let asr = e.assertions(); if asr.is_empty() { return Ok(None); }
            let i = choice(asr.len());
            let copy = match choice(2) { 0 => asr[i].elide(), _ => match asr[i].compress() { Ok(c) => c, Err(_) => return Ok(None) } };
            let r = must!(e.add_assertion_envelope(copy), "add refused");
            ensure!(r.assertions().len() == asr.len(), "assertion with a digest already present was added again", "{} -> {}", asr.len(), r.assertions().len());
            Some(r)
        }
        24 => {
            // elide an assertion in place, then offer the clear original again
            op("add_assertion_envelope (clear copy of an elided assertion)");
            let asr = e.assertions(); if asr.is_empty() { return Ok(None); }
            let i = choice(asr.len());
            let hidden = e.elide_removing_target(&asr[i]);
            let r = must!(hidden.add_assertion_envelope(asr[i].clone()), "add refused");
            ensure!(r.assertions().len() == asr.len(), "assertion with a digest already present was added again", "{} -> {}", asr.len(), r.assertions().len());
            Some(r)
        }
        25 => {
            op("replace_assertion (replacement is not an assertion)");
            let asr = e.assertions(); if asr.is_empty() { return Ok(None); }
            let i = choice(asr.len());
            for bad in [build(&l(fresh(14))), build(&crate::spec::k(3000 + fresh(14) as u64)), build(&w(a(l(fresh(15)), l(fresh(16))))), build(&n(l(fresh(17)), vec![a(l(fresh(18)), l(fresh(19)))]))] {
                ensure!(e.replace_assertion(asr[i].clone(), bad).is_err(), "replace_assertion accepted a replacement that is neither an assertion nor obscured", "");
            }
            None
        }
        26 => {
            op("replace_assertion (replacement already present)");
            let asr = e.assertions(); if asr.len() < 2 { return Ok(None); }
            let i = choice(asr.len()); let j = (i + 1 + choice(asr.len() - 1)) % asr.len();
            let twin = if choice(2) == 0 { asr[j].clone() } else { asr[j].elide() };
            let r = must!(e.replace_assertion(asr[i].clone(), twin), "replace refused");
            ensure!(r.assertions().len() == asr.len() - 1, "replace_assertion left two elements with the same digest", "{} -> {}", asr.len(), r.assertions().len());
            Some(r)
        }
        27 => {
            op("replace_subject (by the envelope itself)");
            let r = e.replace_subject(e.clone());
            ensure!(r.assertions().len() == e.assertions().len(), "replace_subject duplicated assertions", "{} -> {}", e.assertions().len(), r.assertions().len());
            Some(r)
        }
        28 => {
            op("replace_subject (node sharing an assertion)");
            let asr = e.assertions(); if asr.is_empty() { return Ok(None); }
            let i = choice(asr.len());
            let shared = if choice(2) == 0 { asr[i].clone() } else { asr[i].elide() };
            let ns = must!(build(&l(fresh(7))).add_assertion_envelope(shared), "add refused");
            let r = e.replace_subject(ns);
            ensure!(r.assertions().len() == asr.len(), "replace_subject duplicated a shared assertion", "{} -> {}", asr.len(), r.assertions().len());
            Some(r)
        }
        29 => {
            // every adding entry point refuses what is neither an assertion nor an obscured element
            op("add_assertion_envelope* (argument is not an assertion)");
            for bad in [build(&l(fresh(14))), build(&crate::spec::k(3000 + fresh(14) as u64)), build(&w(a(l(fresh(15)), l(fresh(16))))), build(&n(l(fresh(17)), vec![a(l(fresh(18)), l(fresh(19)))])), build(&w(l(fresh(14))))] {
                ensure!(e.add_assertion_envelope(bad.clone()).is_err(), "add_assertion_envelope accepted a non-assertion", "{:?}", kind(&bad));
                ensure!(e.add_optional_assertion_envelope(Some(bad.clone())).is_err(), "add_optional_assertion_envelope accepted a non-assertion", "{:?}", kind(&bad));
                ensure!(e.add_assertion_envelope_salted(bad.clone(), false).is_err() && e.add_assertion_envelope_salted(bad.clone(), true).is_err(), "add_assertion_envelope_salted accepted a non-assertion", "{:?}", kind(&bad));
                ensure!(e.add_optional_assertion_envelope_salted(Some(bad.clone()), false).is_err(), "add_optional_assertion_envelope_salted accepted a non-assertion", "{:?}", kind(&bad));
                ensure!(e.add_assertion_envelopes(&[bad.clone()]).is_err(), "add_assertion_envelopes accepted a non-assertion", "{:?}", kind(&bad));
                ensure!(e.add_assertion_envelope_if(true, bad.clone()).is_err(), "add_assertion_envelope_if accepted a non-assertion", "{:?}", kind(&bad));
            }
            None
        }
        30 => {
            // the replacement has the digest of the assertion it replaces (the assertion itself, or an obscured form of it)
            op("replace_assertion (replacement has the same digest)");
            let asr = e.assertions(); if asr.is_empty() { return Ok(None); }
            let i = choice(asr.len());
            let twin = match choice(3) { 0 => asr[i].clone(), 1 => asr[i].elide(), _ => match asr[i].compress() { Ok(c) => c, Err(_) => return Ok(None) } };
            let r = must!(e.replace_assertion(asr[i].clone(), twin.clone()), "replace refused");
            ensure!(dg(&r) == dg(e), "replacing an assertion by an element of the same digest changed the root digest", "");
            let ra = r.assertions();
            ensure!(ra.len() == asr.len(), "replacing an assertion by an element of the same digest changed the number of assertions", "{} -> {}", asr.len(), ra.len());
            ensure!(ra.iter().any(|x| bytes(x) == bytes(&twin)), "the replacement is not among the result's assertions", "");
            Some(r)
        }
        31 => {
            // obscure any position (the root too) by the Encrypt / Compress action
            op("elide_removing_target_with_action (encrypt / compress)");
            let ps = positions(e); let i = choice(ps.len().min(8));
            let act = if choice(2) == 0 { ObscureAction::Encrypt(key.clone()) } else { ObscureAction::Compress };
            let r = e.elide_removing_target_with_action(&ps[i].env, &act);
            ensure!(dg(&r) == dg(e), "obscuring changed the root digest", "");
            Some(r)
        }
        _ => { op("encode->decode"); Some(must!(Envelope::try_from_cbor_data(bytes(e)), "decode of own encoding failed")) }
    })
}

/// every encrypted (under the harness key) / compressed element the library itself produced opens to content with the
/// digest it declares (the digests held in the structure agree with those recomputed from its children, also behind
/// an obscured element)
fn obscured_content_ok(e: &Envelope) -> Result<(), String> {
    let key = test_key();
    for p in positions(e) {
        match p.kind {
            Kind::Encrypted => match p.env.decrypt_subject(&key) {
                Ok(d) => { if dg(&d) != p.d { return Err(format!("at {:?}: encrypted element opens to content with another digest", p.path)); } obscured_content_ok(&d)?; }
                Err(err) => if matches!(err.downcast_ref::<EnvelopeError>(), Some(EnvelopeError::InvalidDigest)) { return Err(format!("at {:?}: encrypted element declares a digest its content does not have", p.path)); }
            },
            Kind::Compressed => match p.env.uncompress() {
                Ok(d) => { if dg(&d) != p.d { return Err(format!("at {:?}: compressed element opens to content with another digest", p.path)); } obscured_content_ok(&d)?; }
                Err(err) => return Err(format!("at {:?}: compressed element produced by the library does not uncompress: {}", p.path, err)),
            },
            _ => {}
        }
    }
    Ok(())
}

fn starts() -> Vec<Spec> {
    vec![
        l(1), k(1001), a(l(1), l(2)), w(l(1)),
        n(l(1), vec![a(l(2), l(3))]),
        n(l(1), vec![a(l(2), l(3)), a(l(4), l(5))]),
        n(k(1001), vec![a(k(1002), l(3)), a(l(4), w(l(5))), a(l(6), l(7))]),
        n(l(1), vec![n(a(l(2), l(3)), vec![a(l(4), l(5))]), a(l(6), l(7))]),
        n(w(n(l(1), vec![a(l(2), l(3))])), vec![a(l(4), l(5))]),
        n(el(l(1)), vec![a(l(2), l(3)), el(a(l(4), l(5)))]),
        n(co(l(1)), vec![a(l(2), l(3)), co(a(l(4), l(5)))]),
        n(en(l(1)), vec![a(l(2), l(3))]),
        n(a(l(1), l(2)), vec![a(l(3), l(4))]),
    ]
}

fn sequences_with(len: usize, reduced: bool) -> R {
    let st = starts();
    // length-3 sequences in the quick tier start from the 7 node-shaped envelopes (the others are covered at length 2)
    let s = if reduced && (len == 4 || (len == 3 && !rt::thorough())) { &st[[4usize, 5, 6, 7, 8, 9, 12][choice(7)]] } else { &st[choice(st.len())] };
    if let Ok(f) = std::env::var("SYMORD_DEBUG_START") { rt::assume(s.show() == st[f.parse::<usize>().unwrap()].show())?; }
    let mut e = build(s);
    if let Err(m) = well_formed(&e) { return rt::viol("freshly built envelope not canonical", m); }
    let mut trace = vec![s.show()];
    // structural operations that re-sort / merge / collapse; the others are exercised at length 2
    let core: [usize; 16] = [0, 1, 2, 4, 5, 6, 7, 9, 14, 16, 23, 24, 26, 28, 30, 31];
    for step in 0..len {
        let quick_core: [usize; 10] = [0, 2, 4, 5, 6, 7, 9, 14, 16, 24];
        let len4_core: [usize; 8] = [0, 2, 4, 5, 6, 7, 9, 24];
        let k = if reduced && len == 4 { len4_core[choice(len4_core.len())] } else if reduced && !rt::thorough() { quick_core[choice(quick_core.len())] } else if reduced { core[choice(core.len())] } else { choice(N_OPS) };
        let before = bytes(&e);
        let recv = e.clone();
        let r = apply(k, &e, step as u32)?;
        trace.push(crate::engine::cur_op());
        ensure!(bytes(&recv) == before, "operation altered its receiver", "{:?}", trace);
        if let Some(x) = r {
            if let Err(m) = well_formed(&x) { return rt::viol("result not canonical / well-formed", format!("{:?}: {}", trace, m)); }
            if let Err(m) = obscured_content_ok(&x) { return rt::viol("obscured element inconsistent with its content", format!("{:?}: {}", trace, m)); }
            e = x;
        }
    }
    rt::note(format!("{:?}", trace));
    Ok(())
}
/// elements a key holder / sender can hand over through the public conversions: an encrypted or compressed element whose
/// declared digest is not that of its content, bare or carrying assertions; whatever an operation returns for it is well-formed
fn crafted() -> R {
    let content = [l(1), n(l(1), vec![a(l(2), l(3))]), w(l(1)), a(l(1), l(2))];
    let declared = [l(101), n(l(101), vec![a(l(102), l(103))]), l(1)];
    let (sc, sd) = (&content[choice(content.len())], &declared[choice(declared.len())]);
    let (ec, ed) = (build(sc), build(sd));
    let key = test_key();
    let enc = choice(2) == 0;
    op("Envelope::try_from(EncryptedMessage / Compressed) with a declared digest");
    let forged = if enc {
        must!(Envelope::try_from(key.encrypt_with_digest(bytes(&ec), ed.digest().into_owned(), Some(bc_components::Nonce::from_data_ref([7u8; 12]).unwrap()))), "encrypted message with digest refused")
    } else {
        must!(Envelope::try_from(bc_components::Compressed::from_uncompressed_data(bytes(&ec), Some(ed.digest().into_owned()))), "compressed with digest refused")
    };
    let nass = choice(3);
    let mut f = forged;
    for i in 0..nass { f = must!(f.add_assertion_envelope(build(&a(l(700 + 2 * i as u32), l(701 + 2 * i as u32)))), "add refused"); }
    if choice(2) == 1 { f = must!(Envelope::try_from_cbor_data(bytes(&f)), "decode of own encoding failed"); }
    if let Err(m) = well_formed(&f) { return rt::viol("result not canonical / well-formed", format!("crafted element: {}", m)); }
    rt::note(format!("{} content {} declared as {} with {} assertions", if enc { "encrypted" } else { "compressed" }, sc.show(), sd.show(), nass));
    let before = bytes(&f);
    let r: Option<Envelope> = match choice(6) {
        0 => { op("decrypt_subject"); f.decrypt_subject(&key).ok() }
        1 => { op("uncompress_subject"); f.uncompress_subject().ok() }
        2 => { op("uncompress"); f.uncompress().ok() }
        3 => { op("compress_subject"); f.compress_subject().ok() }
        4 => { op("encrypt_subject"); f.encrypt_subject(&key).ok() }
        _ => { op("replace_subject"); Some(f.replace_subject(build(&l(9)))) }
    };
    ensure!(bytes(&f) == before, "operation altered its receiver", "");
    if let Some(x) = r {
        if let Err(m) = well_formed(&x) { return rt::viol("result not canonical / well-formed", format!("{} on a crafted {} element: {}", crate::engine::cur_op(), if enc { "encrypted" } else { "compressed" }, m)); }
    }
    Ok(())
}

fn seq2() -> R { sequences_with(2, false) }
fn seq3() -> R { sequences_with(3, true) }
fn seq3_full() -> R { sequences_with(3, false) }
fn seq4() -> R { sequences_with(4, true) }

// ------------------------------------------------------------------------------------ C05

fn roundtrip() -> R {
    let base = if rt::thorough() { spec::catalogue(9, true, false, true) } else { spec::catalogue(7, true, false, true) };
    let obs = if rt::thorough() { spec::catalogue(5, true, true, false) } else { spec::catalogue(4, true, true, false) };
    let i = choice(base.len() + obs.len());
    let s0 = if i < base.len() { &base[i] } else { &obs[i - base.len()] };
    // every obscuration pattern of one or two positions on top (any action)
    let mut s = s0.clone();
    for _ in 0..choice(3) {
        let paths = spec_paths(&s);
        let pi = choice(paths.len());
        let Some(s2) = obscure_at(&s, &paths[pi], choice(3)) else { return Err(rt::Stop::Skip) };
        s = s2;
    }
    let s = &s;
    rt::note(s.show());
    let e = build(s);
    let b = bytes(&e);
    op("try_from_cbor_data");
    let d = must!(Envelope::try_from_cbor_data(b.clone()), "decode of own encoding failed");
    ensure!(d.is_identical_to(&e) && e.is_identical_to(&d), "decoded envelope not identical", "{}", s.show());
    ensure!(d == e, "decoded envelope != original", "{}", s.show());
    let (pe, pd) = (positions(&e), positions(&d));
    ensure!(pe.len() == pd.len(), "decoded envelope has another number of elements", "{} vs {}", pe.len(), pd.len());
    for (x, y) in pe.iter().zip(pd.iter()) {
        ensure!(x.path == y.path && x.kind == y.kind && x.d == y.d, "decoded element differs in case or digest", "at {:?}: {:?}/{:?}", x.path, x.kind, y.kind);
    }
    ensure!(bytes(&d) == b, "re-encoding differs from the original bytes", "{}", s.show());
    if let Err(m) = conforms(&d, s) { return rt::viol("decoded envelope differs from specification", m); }
    match grammar(&b) { Ok(g) => ensure!(g == dg(&e), "digest from bytes differs", ""), Err(m) => return rt::viol("own encoding rejected by the grammar recogniser", m) }
    op("ur_string/from_ur_string");
    let u = must!(Envelope::from_ur_string(e.ur_string()), "UR decode failed");
    ensure!(u.is_identical_to(&e) && bytes(&u) == b, "UR round trip not identical", "");
    // untagged route
    let v = must!(Envelope::from_untagged_cbor(e.untagged_cbor()), "untagged decode failed");
    ensure!(bytes(&v) == b, "untagged round trip not identical", "");
    routes_agree(&e, &b)
}

/// every public encode / decode route (tagged / untagged CBOR value, CBOR bytes, `TryFrom<CBOR>` / `From<Envelope>`,
/// UR value and UR string) agrees with the canonical bytes `b` of `e` and returns an envelope identical to `e`
fn routes_agree(e: &Envelope, b: &[u8]) -> R {
    op("encode routes");
    ensure!(e.to_cbor().to_cbor_data() == b, "to_cbor differs from tagged_cbor", "");
    ensure!(CBOR::from(e.clone()).to_cbor_data() == b, "From<Envelope> for CBOR differs from tagged_cbor", "");
    ensure!(e.tagged_cbor_data() == b, "tagged_cbor_data differs from tagged_cbor", "");
    ensure!(e.to_cbor_data() == b, "to_cbor_data differs from tagged_cbor", "");
    ensure!(e.ur().cbor().to_cbor_data() == e.untagged_cbor().to_cbor_data(), "UR payload is not the untagged CBOR", "");
    let same = |what: &'static str, r: anyhow::Result<Envelope>| -> R {
        let d = match r { Ok(d) => d, Err(x) => return rt::viol("decode route refused the library's own encoding", format!("{}: {}", what, x)) };
        ensure!(d.is_identical_to(e) && e.is_identical_to(&d) && d == *e, "decode route returned an envelope that is not identical", "{}", what);
        ensure!(d.digest() == e.digest(), "decode route changed the digest", "{}", what);
        ensure!(d.tagged_cbor().to_cbor_data() == b, "decode route result re-encodes differently", "{}", what);
        let (pe, pd) = (positions(e), positions(&d));
        ensure!(pe.len() == pd.len(), "decode route changed the number of elements", "{}", what);
        for (x, y) in pe.iter().zip(pd.iter()) { ensure!(x.path == y.path && x.kind == y.kind && x.d == y.d, "decode route changed case or digest of an element", "{} at {:?}", what, x.path); }
        Ok(())
    };
    op("decode routes");
    same("try_from_cbor(to_cbor)", Envelope::try_from_cbor(e.to_cbor()))?;
    same("TryFrom<CBOR>", Envelope::try_from(CBOR::from(e.clone())))?;
    same("from_tagged_cbor", Envelope::from_tagged_cbor(e.tagged_cbor()))?;
    same("from_tagged_cbor_data", Envelope::from_tagged_cbor_data(b))?;
    same("from_untagged_cbor", Envelope::from_untagged_cbor(e.untagged_cbor()))?;
    same("from_untagged_cbor_data", Envelope::from_untagged_cbor_data(e.untagged_cbor().to_cbor_data()))?;
    same("from_ur(ur)", Envelope::from_ur(e.ur()))?;
    same("from_ur_string(ur_string)", Envelope::from_ur_string(e.ur_string()))?;
    same("from_ur_string(upper-case ur_string)", Envelope::from_ur_string(e.ur_string().to_uppercase()))?;
    // the UR string itself is a function of the bytes
    let u2 = must!(Envelope::from_ur_string(e.ur_string()), "UR decode failed");
    ensure!(u2.ur_string() == e.ur_string(), "UR string not stable over a round trip", "");
    Ok(())
}

/// the result of every single operation (the C04 operation set, every argument choice) on every start envelope
/// round-trips exactly
fn after_operation() -> R {
    let st = starts();
    let s = &st[choice(st.len())];
    let e0 = build(s);
    let k = choice(N_OPS);
    let Some(e) = apply(k, &e0, 0)? else { return Ok(()) };
    let what = crate::engine::cur_op();
    rt::note(format!("{} then {}", s.show(), what));
    let b = bytes(&e);
    op("try_from_cbor_data");
    let d = must!(Envelope::try_from_cbor_data(b.clone()), "decode of own encoding failed");
    ensure!(d.is_identical_to(&e) && e.is_identical_to(&d) && d == e, "decoded envelope not identical", "{} after {}", s.show(), what);
    let (pe, pd) = (positions(&e), positions(&d));
    ensure!(pe.len() == pd.len(), "decoded envelope has another number of elements", "{} vs {} ({} after {})", pe.len(), pd.len(), s.show(), what);
    for (x, y) in pe.iter().zip(pd.iter()) {
        ensure!(x.path == y.path && x.kind == y.kind && x.d == y.d, "decoded element differs in case or digest", "at {:?}: {:?}/{:?} ({} after {})", x.path, x.kind, y.kind, s.show(), what);
    }
    ensure!(bytes(&d) == b, "re-encoding differs from the original bytes", "{} after {}", s.show(), what);
    op("ur_string/from_ur_string");
    let u = must!(Envelope::from_ur_string(e.ur_string()), "UR decode failed");
    ensure!(u.is_identical_to(&e) && bytes(&u) == b, "UR round trip not identical", "");
    routes_agree(&e, &b)
}

fn roundtrip_leaves() -> R {
    // every leaf CBOR type inside a two-assertion envelope
    let vals: Vec<(&str, CBOR)> = vec![
        ("u8", 7u8.into()), ("u16 boundary", 256u16.into()), ("u32 boundary", 65536u32.into()), ("u64 boundary", (1u64 << 32).into()), ("u64 max", u64::MAX.into()),
        ("neg", (-1i8).into()), ("neg 2 bytes", (-300i16).into()), ("i64 min", i64::MIN.into()),
        ("float", 1.5f64.into()), ("reducible float", 42.0f64.into()), ("f32", 3.25f32.into()), ("long float", 1.1f64.into()), ("inf", f64::INFINITY.into()), ("nan", f64::NAN.into()),
        ("text", "hello".into()), ("empty text", "".into()), ("non-ascii", "\u{e9}\u{6c34}\u{1f600}".into()), ("long text", "x".repeat(300).into()),
        ("bytes", CBOR::to_byte_string([1u8, 2, 3])), ("32 bytes (looks like a digest)", CBOR::to_byte_string([9u8; 32])),
        ("bytes that are one encoded item (h'01')", CBOR::to_byte_string([0x01u8])), ("bytes that are one encoded item (h'182a')", CBOR::to_byte_string([0x18u8, 0x2a])), ("bytes that are encoded text", CBOR::to_byte_string([0x61u8, 0x61])),
        ("bytes holding a serialized envelope", CBOR::to_byte_string(Envelope::new("inner").add_assertion("p", "o").tagged_cbor().to_cbor_data())),
        ("true", true.into()), ("false", false.into()), ("null", CBOR::null()),
        ("array", vec![1u8, 2].into()), ("nested array", vec![CBOR::from(1u8), vec![2u8, 3].into()].into()), ("empty array", Vec::<u8>::new().into()),
        ("map", { let mut m = Map::new(); m.insert(1u8, "a"); m.insert("b", 2u8); m.into() }), ("empty map", Map::new().into()),
        ("tagged", CBOR::to_tagged_value(100u64, "x")), ("tag 200 inside a leaf", CBOR::to_tagged_value(200u64, CBOR::to_tagged_value(201u64, "inner"))),
        ("date", dcbor::Date::from_timestamp(1_700_000_000.0).into()), ("fractional date", dcbor::Date::from_timestamp(0.5).into()), ("negative date", dcbor::Date::from_timestamp(-1.0).into()),
        ("unsigned that looks like a known value", 5u8.into()),
        ("value tagged 24 over bytes", CBOR::to_tagged_value(24u64, CBOR::to_byte_string([0x61u8, 0x78]))), ("value tagged 24 over text", CBOR::to_tagged_value(24u64, "x")), ("value tagged 201", CBOR::to_tagged_value(201u64, "x")),
        ("value tagged 201 over tagged 24", CBOR::to_tagged_value(201u64, CBOR::to_tagged_value(24u64, 5u8))), ("value tagged 200 that is no envelope", CBOR::to_tagged_value(200u64, "x")), ("value tagged 40000", CBOR::to_tagged_value(40000u64, 5u8)),
        ("KNOWN value 2^32-1", u32::MAX.into()), ("KNOWN value 2^32", (1u64 << 32).into()), ("KNOWN value u64::MAX", u64::MAX.into()), ("KNOWN value 65536", 65536u32.into()),
    ];
    let (name, v) = &vals[choice(vals.len())];
    rt::note(*name);
    let leaf = if name.starts_with("KNOWN") { Envelope::new(KnownValue::new(u64::try_from(v.clone()).unwrap())) } else { Envelope::new(v.clone()) };
    let pos = choice(4);
    let e = match pos {
        0 => leaf.clone(),
        1 => leaf.add_assertion("p1", "o1").add_assertion("p2", "o2"),
        2 => Envelope::new("s").add_assertion(leaf.clone(), "o1").add_assertion("p2", leaf.clone()),
        _ => Envelope::new("s").add_assertion("p", leaf.wrap_envelope()),
    };
    let b = bytes(&e);
    let d = must!(Envelope::try_from_cbor_data(b.clone()), "decode of own encoding failed");
    ensure!(d.is_identical_to(&e), "decoded envelope not identical", "{}", name);
    ensure!(bytes(&d) == b, "re-encoding differs from the original bytes", "{}", name);
    let (pe, pd) = (positions(&e), positions(&d));
    for (x, y) in pe.iter().zip(pd.iter()) { ensure!(x.kind == y.kind && x.d == y.d, "decoded element differs in case or digest", "{} at {:?}", name, x.path); }
    let back = d.subject();
    if kind(&leaf) == Kind::Leaf && pos <= 1 {
        ensure!(kind(&back) == Kind::Leaf, "leaf subject changed case", "{}", name);
        ensure!(back.as_leaf().map(|c| c.to_cbor_data()) == Some(v.to_cbor_data()), "leaf value changed by the round trip", "{}", name);
    }
    let u = must!(Envelope::from_ur_string(e.ur_string()), "UR decode failed");
    ensure!(bytes(&u) == b, "UR round trip not identical", "{}", name);
    routes_agree(&e, &b)
}

// ------------------------------------------------------------------------------------ C06

fn arr(v: Vec<CBOR>) -> CBOR { CBORCase::Array(v).into() }

/// every single structural mutation of an envelope-content CBOR tree, with a description
fn variants(c: &CBOR) -> Vec<(String, CBOR)> {
    let mut out: Vec<(String, CBOR)> = vec![];
    let junk_leaf = CBOR::to_tagged_value(201u64, "junk");
    match c.as_case() {
        CBORCase::Array(v) => {
            for i in 1..v.len() { for j in i + 1..v.len() { let mut w = v.clone(); w.swap(i, j); out.push((format!("swap assertion elements {} and {}", i, j), arr(w))); } }
            for i in 1..v.len() { let mut w = v.clone(); w.push(v[i].clone()); out.push((format!("duplicate assertion element {} at the end", i), arr(w)));
                                  let mut w = v.clone(); w.insert(i, v[i].clone()); out.push((format!("duplicate assertion element {} in place", i), arr(w))); }
            if v.is_empty() { return out; }
            out.push(("node with subject only".into(), arr(vec![v[0].clone()])));
            out.push(("empty node array".into(), arr(vec![])));
            for i in 1..v.len() { let mut w = v.clone(); w[i] = junk_leaf.clone(); out.push((format!("leaf in assertion slot {}", i), arr(w)));
                                  let mut w = v.clone(); w[i] = 7u8.into(); out.push((format!("known value in assertion slot {}", i), arr(w)));
                                  let mut w = v.clone(); w[i] = CBOR::to_tagged_value(200u64, v[i].clone()); out.push((format!("wrapped assertion in assertion slot {}", i), arr(w))); }
            for i in 1..v.len() { let mut w = v.clone(); w[i] = arr(vec![junk_leaf.clone(), v[i].clone()]); out.push((format!("node with a leaf subject (carrying the assertion) in assertion slot {}", i), arr(w)));
                                  let mut w = v.clone(); w[i] = arr(vec![CBOR::from(9u8), v[i].clone()]); out.push((format!("node with a known-value subject in assertion slot {}", i), arr(w))); }
            { let mut w = v.clone(); w.push(junk_leaf.clone()); out.push(("array extended by a leaf".into(), arr(w))); }
            for (i, x) in v.iter().enumerate() { for (d, y) in variants(x) { let mut w = v.clone(); w[i] = y; out.push((format!("[{}] {}", i, d), arr(w))); } }
        }
        CBORCase::Map(m) => {
            let Some((k, val)) = m.iter().next().map(|(a, b)| (a.clone(), b.clone())) else { return out };
            { let mut m2 = Map::new(); m2.insert(k.clone(), val.clone()); m2.insert(junk_leaf.clone(), junk_leaf.clone()); out.push(("assertion map with two entries".into(), m2.into())); }
            out.push(("assertion map with no entry".into(), Map::new().into()));
            for (d, y) in variants(&k) { let mut m2 = Map::new(); m2.insert(y, val.clone()); out.push((format!("pred {}", d), m2.into())); }
            for (d, y) in variants(&val) { let mut m2 = Map::new(); m2.insert(k.clone(), y); out.push((format!("obj {}", d), m2.into())); }
        }
        CBORCase::Tagged(t, inner) => {
            match t.value() {
                201 => {
                    out.push(("ALIAS leaf retagged #6.24".into(), CBOR::to_tagged_value(24u64, inner.clone())));
                    out.push(("leaf retagged #6.999".into(), CBOR::to_tagged_value(999u64, inner.clone())));
                    out.push(("leaf untagged".into(), inner.clone()));
                }
                200 => {
                    out.push(("wrapped retagged #6.202".into(), CBOR::to_tagged_value(202u64, inner.clone())));
                    for (d, y) in variants(inner) { out.push((format!("wrapped {}", d), CBOR::to_tagged_value(200u64, y))); }
                }
                40002 | 40003 => {
                    if let CBORCase::Array(v) = inner.as_case() {
                        if v.len() == 4 { let w = v[..3].to_vec(); out.push(("obscured element without its digest".into(), CBOR::to_tagged_value(t.value(), arr(w)))); }
                    }
                    out.push(("obscured element retagged".into(), CBOR::to_tagged_value(t.value() + 10, inner.clone())));
                    if let CBORCase::Array(v) = inner.as_case() {
                        if v.len() == 4 {
                            // the digest field present but malformed
                            let raw32 = CBOR::to_byte_string([0x11u8; 32]);
                            let fields: Vec<(&str, CBOR)> = if t.value() == 40002 {
                                let CBORCase::ByteString(aad) = v[3].as_case() else { return out };
                                let aad: &[u8] = aad.as_ref();
                                if aad.len() < 4 { return out; }
                                vec![("digest field without its tag bytes", CBOR::to_byte_string(&aad[3..])), ("digest field truncated by one byte", CBOR::to_byte_string(&aad[..aad.len() - 1])),
                                     ("digest field replaced by arbitrary bytes", CBOR::to_byte_string(b"xyz")), ("digest field holding other CBOR", CBOR::to_byte_string(CBOR::from("text").to_cbor_data()))]
                            } else {
                                vec![("digest field untagged", raw32.clone()), ("digest field with another tag", CBOR::to_tagged_value(40000u64, raw32.clone())), ("digest field of 31 bytes", CBOR::to_tagged_value(40001u64, CBOR::to_byte_string([0x11u8; 31]))), ("digest field replaced by text", "x".into())]
                            };
                            for (d, f) in fields { let mut w = v.clone(); w[3] = f; out.push((format!("obscured element with {}", d), CBOR::to_tagged_value(t.value(), arr(w)))); }
                            let mut w = v.clone(); w.push(CBOR::from(1u8)); out.push(("obscured element with a fifth field".into(), CBOR::to_tagged_value(t.value(), arr(w))));
                        }
                    }
                }
                _ => {}
            }
        }
        CBORCase::ByteString(b) => {
            let b: &[u8] = b.as_ref();
            if b.len() != 32 { return out; }
            out.push(("digest of 31 bytes".into(), CBOR::to_byte_string(&b[..31])));
            let mut x = b.to_vec(); x.push(0); out.push(("digest of 33 bytes".into(), CBOR::to_byte_string(x)));
            out.push(("empty digest".into(), CBOR::to_byte_string(Vec::<u8>::new())));
        }
        CBORCase::Unsigned(_) => {
            out.push(("known value replaced by a negative integer".into(), (-1i8).into()));
            out.push(("known value replaced by text".into(), "x".into()));
            out.push(("known value replaced by a float".into(), 1.5f64.into()));
            out.push(("known value replaced by true".into(), true.into()));
        }
        _ => {}
    }
    out
}

fn decoder_verdict(input: &CBOR, alias: bool, desc: &str) -> R {
    let data = CBOR::to_tagged_value(200u64, input.clone()).to_cbor_data();
    op("try_from_cbor_data (mutated)");
    // (the recogniser runs after the decoder: digests the mutation created get their order from the decoder's own comparisons)
    let decoded = Envelope::try_from_cbor_data(data.clone());
    let verdict = grammar(&data);
    // every decode route gives the same verdict and, when it accepts, the same envelope
    for (route, r) in [("from_tagged_cbor_data", Envelope::from_tagged_cbor_data(&data)), ("TryFrom<CBOR>", CBOR::try_from_data(&data).map_err(anyhow::Error::from).and_then(Envelope::try_from)),
                       ("from_untagged_cbor", Envelope::from_untagged_cbor(input.clone()))] {
        match (&decoded, &r) {
            (Ok(a), Ok(b)) => ensure!(bytes(a) == bytes(b) && a.is_identical_to(b), "decode routes accept the same input as different envelopes", "{}: {}", desc, route),
            (Err(_), Err(_)) => {}
            (Ok(_), Err(_)) => return rt::viol("decode routes disagree on whether input is acceptable", format!("{}: try_from_cbor_data accepts, {} refuses", desc, route)),
            (Err(_), Ok(_)) => return rt::viol("decode routes disagree on whether input is acceptable", format!("{}: try_from_cbor_data refuses, {} accepts", desc, route)),
        }
    }
    match decoded {
        Err(_) => Ok(()),
        Ok(e) => {
            let out = bytes(&e);
            if alias {
                // #6.24 is read as #6.201: re-encoding must equal the input with the tag put back
                ensure!(verdict.is_err(), "internal: recogniser accepted #6.24", "");
                let _ = out;
                return Ok(());
            }
            ensure!(out == data, "decoder accepted input that is not the encoding of the result", "{}: re-encoding differs from the accepted input ({} -> {} bytes)", desc, data.len(), out.len());
            if let Err(m) = &verdict { return rt::viol("decoder accepted input that the grammar rejects", format!("{}: {}", desc, m)); }
            Ok(())
        }
    }
}

fn mutations() -> R {
    let base = if rt::thorough() { spec::catalogue(8, true, false, true) } else { spec::catalogue(6, true, false, true) };
    let obs = spec::catalogue(4, false, true, false);
    let i = choice(base.len() + obs.len());
    let s = if i < base.len() { &base[i] } else { &obs[i - base.len()] };
    let e = build(s);
    let c = e.untagged_cbor();
    let vs = variants(&c);
    rt::assume(!vs.is_empty())?;
    let (d1, m1) = &vs[choice(vs.len())];
    rt::note(format!("{} :: {}", s.show(), d1));
    decoder_verdict(m1, d1.contains("ALIAS"), d1)?;
    if rt::thorough() && choice(2) == 1 {
        // double mutation
        let v2 = variants(m1);
        if !v2.is_empty() {
            let k = choice(v2.len().min(24));
            let (d2, m2) = &v2[k];
            if !d1.contains("ALIAS") && !d2.contains("ALIAS") { decoder_verdict(m2, false, &format!("{} + {}", d1, d2))?; }
        }
    }
    Ok(())
}

/// byte-level mutation of small valid encodings: every bit flip, every byte deletion, insertion and overwrite
fn byte_level() -> R {
    let cat = spec::catalogue(if rt::thorough() { 5 } else { 4 }, true, false, false);
    let extra = vec![n(l(1), vec![a(l(2), l(3)), a(l(4), l(5))]), n(l(1), vec![el(a(l(2), l(3))), a(l(4), co(l(5)))]), en(l(1))];
    let i = choice(cat.len() + extra.len());
    let s = if i < cat.len() { &cat[i] } else { &extra[i - cat.len()] };
    let e = build(s);
    let good = bytes(&e);
    rt::assume(good.len() <= if rt::thorough() { 200 } else { 120 })?;
    let pos = choice(good.len());
    let kind = choice(4);
    let mut data = good.clone();
    let alias = false;
    match kind {
        0 => { data[pos] ^= 1 << choice(8); }
        1 => { data.remove(pos); }
        2 => { data.insert(pos, [0x00u8, 0x20, 0x40, 0x60, 0x80, 0xa0, 0xd8, 0xf6, 0xff][choice(9)]); }
        _ => { let v = [0x00u8, 0x17, 0x18, 0x19, 0x1b, 0x58, 0x5f, 0x78, 0x80, 0x9f, 0xa0, 0xbf, 0xc9, 0xd8, 0xf5, 0xfb, 0xff][choice(17)]; data[pos] = v; }
    }
    rt::note(format!("{} byte {} kind {}", s.show(), pos, kind));
    op("try_from_cbor_data (byte-level mutation)");
    if let Ok(x) = Envelope::try_from_cbor_data(data.clone()) {
        let out = bytes(&x);
        if alias { ensure!(out == good, "alias #6.24 not read as #6.201", ""); }
        else if out != data {
            // the one tolerated alias: a deprecated #6.24 leaf tag in the input, written back as #6.201
            let mut norm = data.clone();
            for i in 0..norm.len().saturating_sub(1) { if norm[i] == 0xd8 && norm[i + 1] == 0x18 { norm[i + 1] = 0xc9; } }
            ensure!(out == norm, "decoder accepted bytes that are not the encoding of the result", "{} byte {} kind {}: {} -> {}", s.show(), pos, kind, hex::encode(&data), hex::encode(&out));
        }
    }
    Ok(())
}

/// the one tolerated alias: a leaf tagged #6.24 is read as #6.201 - with the very same payload, whatever it is
fn legacy_alias() -> R {
    let vals: Vec<(&str, CBOR)> = vec![
        ("text", "hello".into()), ("integer", 42u8.into()), ("bytes", CBOR::to_byte_string([1u8, 2, 3])),
        ("bytes that are one encoded item (h'01')", CBOR::to_byte_string([0x01u8])), ("bytes that are one encoded item (h'182a')", CBOR::to_byte_string([0x18u8, 0x2a])),
        ("bytes that are encoded text", CBOR::to_byte_string([0x61u8, 0x61])), ("bytes holding a serialized envelope", CBOR::to_byte_string(Envelope::new("inner").add_assertion("p", "o").tagged_cbor().to_cbor_data())),
        ("bytes holding a tagged leaf", CBOR::to_byte_string(CBOR::to_tagged_value(201u64, 7u8).to_cbor_data())), ("array", vec![1u8, 2].into()), ("tagged", CBOR::to_tagged_value(100u64, "x")),
    ];
    let (name, v) = &vals[choice(vals.len())];
    let pos = choice(4);
    // the envelope as the library writes it, and the same bytes with that leaf's tag 201 replaced by 24
    let leaf201 = CBOR::to_tagged_value(201u64, v.clone());
    let leaf24 = CBOR::to_tagged_value(24u64, v.clone());
    let other = |t: &str| -> CBOR { CBOR::to_tagged_value(201u64, t) };
    let mk = |leaf: &CBOR| -> CBOR {
        match pos {
            0 => leaf.clone(),
            1 => arr(vec![leaf.clone(), { let mut m = Map::new(); m.insert(other("p"), other("o")); m.into() }]),
            2 => arr(vec![other("s"), { let mut m = Map::new(); m.insert(other("p"), leaf.clone()); m.into() }]),
            _ => CBOR::to_tagged_value(200u64, leaf.clone()),
        }
    };
    let want = CBOR::to_tagged_value(200u64, mk(&leaf201)).to_cbor_data();
    let input = CBOR::to_tagged_value(200u64, mk(&leaf24)).to_cbor_data();
    rt::note(format!("{} at position {}", name, pos));
    op("try_from_cbor_data (#6.24 leaf)");
    let canonical = must!(Envelope::try_from_cbor_data(want.clone()), "decoder rejected a valid envelope");
    ensure!(bytes(&canonical) == want, "re-encoding differs", "{}", name);
    match Envelope::try_from_cbor_data(input) {
        Err(_) => {} // refusing the deprecated tag altogether is allowed
        Ok(x) => {
            ensure!(bytes(&x) == want, "#6.24 leaf not read as the same #6.201 leaf", "{} at position {}: {}", name, pos, hex::encode(bytes(&x)));
            ensure!(dg(&x) == dg(&canonical), "#6.24 leaf has another digest than the #6.201 leaf", "{}", name);
        }
    }
    Ok(())
}

/// top-level malformations and valid encodings
fn toplevel() -> R {
    let e = build(&n(l(1), vec![a(l(2), l(3)), a(l(4), l(5))]));
    let good = bytes(&e);
    let inner = e.untagged_cbor();
    let cases: Vec<(&str, Vec<u8>, bool)> = vec![
        ("valid", good.clone(), true),
        ("untagged content", inner.to_cbor_data(), false),
        ("tag 201 at top", CBOR::to_tagged_value(201u64, inner.clone()).to_cbor_data(), false),
        ("empty input", vec![], false),
        ("truncated", good[..good.len() - 1].to_vec(), false),
        ("trailing byte", { let mut x = good.clone(); x.push(0); x }, false),
        ("non-minimal array head (0x98 0x03)", { let mut x = vec![0xd8, 0xc8, 0x98, 0x03]; x.extend_from_slice(&good[3..]); x }, false),
        ("indefinite array", { let mut x = vec![0xd8, 0xc8, 0x9f]; x.extend_from_slice(&good[3..]); x.push(0xff); x }, false),
        ("just 0xff", vec![0xff], false),
        ("tag 200 around true", vec![0xd8, 0xc8, 0xf5], false),
        ("tag 200 around null", vec![0xd8, 0xc8, 0xf6], false),
        ("tag 200 around text", vec![0xd8, 0xc8, 0x61, 0x61], false),
        ("tag 200 around float", vec![0xd8, 0xc8, 0xf9, 0x3e, 0x00], false),
        ("tag 200 around negative", vec![0xd8, 0xc8, 0x20], false),
        ("non-canonical known value (0x18 0x05)", vec![0xd8, 0xc8, 0x18, 0x05], false),
        ("leaf with non-canonical integer", vec![0xd8, 0xc8, 0xd8, 0xc9, 0x18, 0x05], false),
        ("leaf with float that must be reduced", vec![0xd8, 0xc8, 0xd8, 0xc9, 0xf9, 0x40, 0x00], false),
        ("map keys out of order inside a leaf", vec![0xd8, 0xc8, 0xd8, 0xc9, 0xa2, 0x02, 0x01, 0x01, 0x01], false),
        ("duplicate map keys inside a leaf", vec![0xd8, 0xc8, 0xd8, 0xc9, 0xa2, 0x01, 0x01, 0x01, 0x02], false),
    ];
    let (name, data, valid) = &cases[choice(cases.len())];
    rt::note(*name);
    op("try_from_cbor_data (top-level case)");
    match Envelope::try_from_cbor_data(data.clone()) {
        Ok(x) => {
            ensure!(*valid || bytes(&x) == *data, "decoder accepted input that is not the encoding of the result", "{}", name);
            ensure!(*valid || grammar(data).is_ok(), "decoder accepted input that the grammar rejects", "{}", name);
        }
        Err(_) => ensure!(!*valid, "decoder rejected a valid encoding", "{}", name),
    }
    Ok(())
}

pub fn prop_c04() -> Prop {
    Prop {
        id: "C04",
        scenarios: vec![
            Scenario { name: "sequences2", f: seq2, thorough_only: false,
                bounds: "13 start envelopes (leaf, known value, assertion, wrapped, nodes with 1-3 assertions, decorated assertion, wrapped node subject, elided / compressed / encrypted children, assertion subject) x every sequence of 2 operations out of 33 (obscuring any position by the Encrypt / Compress action, replace_assertion by the assertion itself / its elided / compressed form, every adding entry point with a non-assertion argument, replace_assertion with an invalid / already present replacement, replace_subject by the envelope itself / by a node sharing an assertion, add, add duplicate, add an elided/compressed copy of a present assertion, add the clear copy of an elided assertion, remove present/absent, replace assertion, replace subject by leaf / by node, wrap, unwrap, elide removing / revealing, compress(_subject), uncompress(_subject), encrypt_subject, decrypt_subject, add_salt_instance, add_assertion_salted, add_signature, add_recipient, add_type, add_attachment, encode->decode) with every argument choice x every digest order; after each step: structure well-formed, stored digests == recomputed, serialized bytes accepted by an independent grammar recogniser, assertion elements strictly ascending under the path condition, every encrypted / compressed element opens to content with the digest it declares, receiver unchanged",
                api: &["add_assertion", "add_assertion_envelope", "remove_assertion", "replace_assertion", "replace_subject", "wrap_envelope", "unwrap_envelope", "elide_removing_target", "elide_revealing_array", "compress", "compress_subject", "uncompress", "uncompress_subject", "encrypt_subject", "decrypt_subject", "add_salt_instance", "add_assertion_salted", "add_signature", "add_recipient", "add_type", "add_attachment", "try_from_cbor_data", "tagged_cbor"] },
            Scenario { name: "sequences3", f: seq3, thorough_only: false,
                bounds: "7 node-shaped starts (quick) / all 13 (thorough) x every sequence of 3 operations out of 10 structural ones (quick) / 16 (thorough) (obscure by Encrypt / Compress action, replace by an element of the same digest, replace with a present twin, replace_subject by a node sharing an assertion, add, add duplicate, add obscured/clear copy of a present assertion, remove, replace assertion, replace subject by leaf / node, wrap, elide, uncompress_subject, decrypt_subject) x every digest order",
                api: &["add_assertion", "add_assertion_envelope", "remove_assertion", "replace_assertion", "replace_subject", "wrap_envelope", "elide_removing_target", "uncompress_subject", "decrypt_subject"] },
            Scenario { name: "crafted", f: crafted, thorough_only: false,
                bounds: "an encrypted or compressed element built through the public conversions whose content (leaf, node, wrapped, assertion) does not hash to the digest it declares (3 declared digests, one of them honest) x 0..2 assertions added x as built / after encode->decode x one of 6 operations (decrypt_subject, uncompress_subject, uncompress, compress_subject, encrypt_subject, replace_subject) x every digest order: whatever is returned is well-formed and its stored digests agree with recomputation",
                api: &["TryFrom<EncryptedMessage> for Envelope", "TryFrom<Compressed> for Envelope", "add_assertion_envelope", "decrypt_subject", "uncompress_subject", "uncompress", "compress_subject", "encrypt_subject", "replace_subject", "try_from_cbor_data"] },
            Scenario { name: "sequences3_full", f: seq3_full, thorough_only: true, bounds: "every sequence of 3 operations out of all 33", api: &["(all of sequences2)"] },
            Scenario { name: "sequences4", f: seq4, thorough_only: true, bounds: "7 node-shaped starts x every sequence of 4 operations out of 8 (add, remove, replace assertion, replace subject by leaf / node, wrap, elide, add the clear copy of an elided assertion) x every digest order", api: &["(all of sequences3)"] },
        ],
        assumptions: COMMON_ASSUMPTIONS.to_vec(),
    }
}

pub fn prop_c05() -> Prop {
    Prop {
        id: "C05",
        scenarios: vec![
            Scenario { name: "roundtrip", f: roundtrip, thorough_only: false,
                bounds: "every shape of <=7 (quick) / <=9 (thorough) elements with known values + 30 hand-written shapes + every shape of <=4 (5) elements with obscured elements, each with 0, 1 or 2 further positions (any) elided / encrypted / compressed x every digest order: CBOR, UR and untagged routes; identical, same case and digest at every position, same bytes after re-encoding",
                api: &["tagged_cbor", "untagged_cbor", "try_from_cbor_data", "from_untagged_cbor", "ur_string", "from_ur_string", "is_identical_to", "PartialEq"] },
            Scenario { name: "after_operation", f: after_operation, thorough_only: false,
                bounds: "13 start envelopes x each of the 33 operations of C04 with every argument choice x every digest order: the result decodes to an identical envelope (case and digest at every position, identical bytes on re-encoding, UR route)",
                api: &["(every operation of C04 sequences2)", "try_from_cbor_data", "from_ur_string", "is_identical_to"] },
            Scenario { name: "leaf_types", f: roundtrip_leaves, thorough_only: false,
                bounds: "42 leaf / known values over every CBOR type (incl. byte strings that are themselves one encoded item or a serialized envelope, known values beyond 2^32) (integer widths, negative, floats incl. reducible / inf / nan, text incl. non-ASCII and 300 chars, byte strings incl. 32 bytes, bool, null, arrays, maps, tagged incl. tag 200 inside a leaf, dates) x 4 positions. Catalogue, not solver-quantified",
                api: &["Envelope::new(CBOR)", "try_from_cbor_data", "ur_string", "from_ur_string"] },
        ],
        assumptions: COMMON_ASSUMPTIONS.to_vec(),
    }
}

pub fn prop_c06() -> Prop {
    Prop {
        id: "C06",
        scenarios: vec![
            Scenario { name: "mutations", f: mutations, thorough_only: false,
                bounds: "valid encoding of every shape of <=6 (quick) / <=8 (thorough) elements + 30 hand-written shapes + obscured shapes <=4 x every single structural mutation of its CBOR tree (swap two assertion elements, duplicate one (in place / at the end), subject-only node, empty array, leaf / known value / wrapped assertion in an assertion slot, array extended, two-entry / empty assertion map, leaf retagged #6.24 (alias) / #6.999 / untagged, wrapped retagged, obscured element without digest / retagged, digest of 31 / 33 / 0 bytes, known value replaced by negative / text / float / bool), thorough: also double mutations x every digest order. Verdict: Err, or Ok(e) whose re-encoding equals the input, and never Ok on input the grammar recogniser rejects. Outside: nesting-depth limits, random bytes",
                api: &["try_from_cbor_data", "from_untagged_cbor", "Assertion::try_from(CBOR)", "new_with_assertions"] },
            Scenario { name: "byte_level", f: byte_level, thorough_only: false,
                bounds: "valid encoding (<=120 bytes quick / <=200 thorough) of every shape of <=4 (5) elements + 3 larger / obscured ones x every byte position x {every single-bit flip, deletion, insertion of 9 values, overwrite with 17 head / tag / break values} (choice variables, exhaustively forked). dcbor's byte decoder is executed, not solver-decided; multi-byte mutations and random bytes are outside",
                api: &["try_from_cbor_data"] },
            Scenario { name: "legacy_alias", f: legacy_alias, thorough_only: false,
                bounds: "10 leaf payloads (text, integer, bytes, byte strings that are themselves one encoded item / a serialized envelope / a tagged leaf, array, tagged) x 4 positions, the leaf tagged #6.24 instead of #6.201: decode refuses, or yields exactly the #6.201 envelope",
                api: &["try_from_cbor_data"] },
            Scenario { name: "toplevel", f: toplevel, thorough_only: false,
                bounds: "19 top-level / byte-level cases (untagged, wrong tag, empty, truncated, trailing byte, non-minimal and indefinite heads, non-envelope simple values, non-canonical known value, non-deterministic CBOR inside a leaf)",
                api: &["try_from_cbor_data"] },
        ],
        assumptions: COMMON_ASSUMPTIONS.to_vec(),
    }
}
