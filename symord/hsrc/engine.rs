//! Explorer: runs one scenario over every digest order and every choice assignment
//! (fork by re-execution, one z3 per worker), builds the decision tree, and proves
//! with one more solver query that the explored paths cover the whole space.

use crate::rt::{self, Mode, Pending, Rt, Sig, Stop, RT};
use std::cell::RefCell;
use std::collections::BTreeMap;
use std::io::Write;
use std::panic::{catch_unwind, AssertUnwindSafe};
use std::sync::{Arc, Condvar, Mutex};
use std::time::Instant;

pub struct Scenario {
    pub name: &'static str,
    pub f: fn() -> rt::R,
    /// what is quantified (for the evidence file)
    pub bounds: &'static str,
    /// public entry points of bc-envelope driven by this scenario
    pub api: &'static [&'static str],
    /// only run in the thorough tier
    pub thorough_only: bool,
}

thread_local! {
    static PANIC_INFO: RefCell<Option<(String, String)>> = const { RefCell::new(None) };
    static CUR_OP: RefCell<String> = const { RefCell::new(String::new()) };
}
/// label the library call that follows (used in the role key of a panic)
pub fn op(label: &str) { CUR_OP.with(|c| { let mut c = c.borrow_mut(); c.clear(); c.push_str(label); }); }
pub fn cur_op() -> String { CUR_OP.with(|c| c.borrow().clone()) }

/// panic payload used by the shape builder when the library refuses a construction step the properties say must succeed
pub struct LibraryRefused(pub String);
pub fn refused<T>(what: &str, err: impl std::fmt::Display) -> T { std::panic::panic_any(LibraryRefused(format!("{}: {}", what, err))) }

pub fn install_panic_hook() {
    std::panic::set_hook(Box::new(|info| {
        let loc = info.location().map(|l| format!("{}:{}", l.file(), l.line())).unwrap_or_default();
        let msg = if let Some(r) = info.payload().downcast_ref::<LibraryRefused>() { format!("LIBRARY-REFUSED {}", r.0) }
            else if let Some(s) = info.payload().downcast_ref::<&str>() { s.to_string() }
            else if let Some(s) = info.payload().downcast_ref::<String>() { s.clone() } else { "panic".to_string() };
        PANIC_INFO.with(|p| *p.borrow_mut() = Some((loc, msg)));
    }));
}

#[derive(Debug, Clone)]
pub enum Outcome { Ok, Skip, Viol { site: String, msg: String } }

#[derive(Debug, Clone)]
pub struct ViolRec {
    pub site: String,
    pub msg: String,
    pub choices: Vec<u32>,
    pub lits: Vec<(usize, usize)>,
    pub notes: Vec<String>,
    pub count: u64,
}

/// decision tree (trie over forking points)
#[derive(Default)]
struct Node { sig: Option<Sig>, kids: BTreeMap<u32, usize> } // kids -> node index; leaf = node with sig None
#[derive(Default)]
struct Tree { nodes: Vec<Node> }
impl Tree {
    fn insert(&mut self, points: &[(Sig, u32)]) {
        if self.nodes.is_empty() { self.nodes.push(Node::default()); }
        let mut cur = 0usize;
        for (sig, v) in points {
            match &self.nodes[cur].sig {
                None => self.nodes[cur].sig = Some(sig.clone()),
                Some(s) => if s != sig { rt::inconclusive(&format!("decision tree inconsistent: {:?} vs {:?}", s, sig)); }
            }
            let next = match self.nodes[cur].kids.get(v) {
                Some(n) => *n,
                None => { let n = self.nodes.len(); self.nodes.push(Node::default()); self.nodes[cur].kids.insert(*v, n); n }
            };
            cur = next;
        }
    }
    /// formula that is true for an (order, choices) assignment iff it lies on an explored path
    fn formula(&self, idx: usize, out: &mut String, leaves: &mut u64) {
        let n = &self.nodes[idx];
        match &n.sig {
            None => { *leaves += 1; out.push_str("true"); }
            Some(Sig::Hook(i, j)) => {
                out.push_str("(or");
                for (v, k) in &n.kids {
                    if *v == 0 { out.push_str(&format!(" (and (< d{} d{}) ", i, j)); } else { out.push_str(&format!(" (and (< d{} d{}) ", j, i)); }
                    self.formula(*k, out, leaves);
                    out.push(')');
                }
                out.push(')');
            }
            Some(Sig::Choice(k, nn)) => {
                out.push_str(&format!("(or (not (and (>= c{} 0) (< c{} {})))", k, k, nn));
                for (v, kid) in &n.kids {
                    out.push_str(&format!(" (and (= c{} {}) ", k, v));
                    self.formula(*kid, out, leaves);
                    out.push(')');
                }
                out.push(')');
            }
        }
    }
    fn max_ids(&self) -> (usize, usize) {
        let (mut d, mut c) = (0usize, 0usize);
        for n in &self.nodes {
            match &n.sig { Some(Sig::Hook(i, j)) => d = d.max(*i + 1).max(*j + 1), Some(Sig::Choice(k, _)) => c = c.max(*k + 1), None => {} }
        }
        (d, c)
    }
}

#[derive(Default)]
pub struct Report {
    pub scenario: String,
    pub paths: u64,
    pub completed: u64,
    pub skipped: u64,
    pub nontrivial: u64,
    pub order_paths: u64,
    pub max_syms: usize,
    pub max_depth: usize,
    pub tree_nodes: u64,
    pub tree_edges: u64,
    pub stats: rt::Stats,
    pub violations: Vec<ViolRec>,
    pub samples: Vec<serde_json::Value>,
    pub sample_choices: Vec<Vec<u32>>,
    pub cert: String,
    pub cert_bytes: usize,
    pub cert_s: f64,
    pub cert_cvc5: Option<String>,
    pub wall_s: f64,
    pub incomplete: Option<String>,
}

struct Shared {
    queue: Vec<Pending>,
    inflight: usize,
    done: bool,
    paths: u64,
}

pub struct Config { pub threads: usize, pub max_paths: u64, pub nonce: u64, pub cvc5: bool, pub keep_cert: Option<String> }

pub fn run_one_path(rtm: &mut Option<Rt>, f: fn() -> rt::R, p: Pending) -> (Outcome, Option<(String, String)>) {
    RT.with(|r| { let mut g = r.borrow_mut(); let mut x = rtm.take().unwrap(); x.begin(p); *g = Some(x); });
    PANIC_INFO.with(|p| *p.borrow_mut() = None);
    op("");
    let res = catch_unwind(AssertUnwindSafe(f));
    RT.with(|r| { let mut g = r.borrow_mut(); let mut x = g.take().unwrap(); x.end(); *rtm = Some(x); });
    match res {
        Ok(Ok(())) => (Outcome::Ok, None),
        Ok(Err(Stop::Skip)) => (Outcome::Skip, None),
        Ok(Err(Stop::Viol { site, msg })) => (Outcome::Viol { site, msg }, None),
        Err(_) => {
            let (loc, msg) = PANIC_INFO.with(|p| p.borrow_mut().take()).unwrap_or_default();
            let file = loc.rsplit_once(':').map(|x| x.0).unwrap_or("").to_string();
            if let Some(what) = msg.strip_prefix("LIBRARY-REFUSED ") {
                let step = what.split(':').next().unwrap_or("").to_string();
                (Outcome::Viol { site: format!("library refused a valid construction step ({})", step), msg: what.to_string() }, None)
            } else if is_harness_file(&file) {
                (Outcome::Ok, Some((loc, msg)))
            } else {
                let short = file.rsplit("/src/").next().unwrap_or(&file).to_string();
                let krate = match file.find("/.cargo/registry/src/") {
                    Some(i) => file[i + 21..].split('/').nth(1).unwrap_or("dependency").to_string(),
                    None => if file.starts_with("/rustc/") || file.contains("/rustlib/") { "std".to_string() } else if file.starts_with("shim/") || file.contains("/shim/src/") { "bc-components (shim)".to_string() } else { "bc-envelope".to_string() },
                };
                // role key: operation + source file below src/ (crate paths differ between the patched and the stock build)
                let where_ = if krate == "bc-envelope" { format!("bc-envelope:{}", short) } else { short.clone() };
                (Outcome::Viol { site: format!("panic in {} [{}]", cur_op(), where_), msg: format!("panicked at {} ({}): {}", loc, krate, msg) }, None)
            }
        }
    }
}

fn is_harness_file(file: &str) -> bool {
    file.contains("hsrc/")
}

pub fn explore(sc: &Scenario, cfg: &Config) -> Report {
    let t0 = Instant::now();
    let shared = Arc::new((Mutex::new(Shared { queue: vec![Pending { values: vec![], sigs: vec![] }], inflight: 0, done: false, paths: 0 }), Condvar::new()));
    let tree = Arc::new(Mutex::new(Tree::default()));
    let agg = Arc::new(Mutex::new(Report::default()));
    let viols: Arc<Mutex<BTreeMap<String, ViolRec>>> = Arc::new(Mutex::new(BTreeMap::new()));
    let f = sc.f;
    let max_paths = cfg.max_paths;
    let nonce = cfg.nonce;
    let mut handles = vec![];
    for _ in 0..cfg.threads {
        let shared = shared.clone(); let tree = tree.clone(); let agg = agg.clone(); let viols = viols.clone();
        handles.push(std::thread::Builder::new().stack_size(64 << 20).spawn(move || {
            let mut rtm = Some(Rt::new(Mode::Symbolic, nonce));
            let mut local_tree_buf: Vec<Vec<(Sig, u32)>> = vec![];
            let (mut completed, mut skipped, mut nontrivial, mut order_paths, mut max_syms, mut max_depth) = (0u64, 0u64, 0u64, 0u64, 0usize, 0usize);
            let mut samples: Vec<serde_json::Value> = vec![];
            let mut sample_choices: Vec<Vec<u32>> = vec![];
            loop {
                let task = {
                    let (m, cv) = &*shared;
                    let mut g = m.lock().unwrap();
                    loop {
                        if g.done { break None; }
                        if let Some(p) = g.queue.pop() { g.inflight += 1; g.paths += 1; break Some(p); }
                        if g.inflight == 0 { g.done = true; cv.notify_all(); break None; }
                        g = cv.wait(g).unwrap();
                    }
                };
                let Some(p) = task else { break };
                let (outcome, harness_panic) = run_one_path(&mut rtm, f, p);
                let rtx = rtm.as_mut().unwrap();
                if let Some((loc, msg)) = harness_panic {
                    rt::inconclusive(&format!("harness panicked at {}: {} (choices {:?})", loc, msg, rtx.choices));
                }
                let mut pts: Vec<(Sig, u32)> = rtx.points.iter().map(|p| (p.sig.clone(), p.taken)).collect();
                let forced = rtx.forced_prefix();
                if pts.len() < forced.len() {
                    // the path stopped before it reached the decision it was forked for
                    match &outcome {
                        // a violation raised by nondeterministic library behaviour (e.g. a random salt length under a defect):
                        // the violation stands (it is replayed natively); the path keeps its place in the decision tree
                        Outcome::Viol { .. } => { pts = forced; }
                        _ => rt::inconclusive(&format!("scenario is not deterministic under re-execution: path ended after {} of {} forced decisions; next expected {:?}; taken {:?}; choices {:?}; notes {:?}; last op {:?}; outcome {:?}", pts.len(), forced.len(), forced.get(pts.len()), pts, rtx.choices, rtx.notes, cur_op(), outcome)),
                    }
                }
                max_depth = max_depth.max(pts.len());
                max_syms = max_syms.max(rtx.nsyms());
                if let Ok(v) = std::env::var("SYMORD_DEBUG_SYMS") { if rtx.nsyms() >= v.parse().unwrap_or(99) { eprintln!("DEBUG syms={} choices={:?} notes={:?} hook_calls={}", rtx.nsyms(), rtx.choices, rtx.notes, rtx.path_hook_calls); } }
                let has_order = pts.iter().any(|p| matches!(p.0, Sig::Hook(..)));
                match &outcome {
                    Outcome::Skip => skipped += 1,
                    _ => { completed += 1; if !pts.is_empty() { nontrivial += 1; } if has_order { order_paths += 1; } }
                }
                if let Outcome::Viol { site, msg } = &outcome {
                    let mut v = viols.lock().unwrap();
                    let e = v.entry(site.clone()).or_insert_with(|| ViolRec {
                        site: site.clone(), msg: msg.clone(), choices: rtx.choices.iter().map(|c| c.1).collect(), lits: rtx.lits.clone(), notes: rtx.notes.clone(), count: 0 });
                    e.count += 1;
                }
                if samples.len() < 2 && !matches!(outcome, Outcome::Skip) && (has_order || samples.is_empty()) {
                    samples.push(serde_json::json!({
                        "choices": rtx.choices.iter().map(|c| format!("{}/{}", c.1, c.0)).collect::<Vec<_>>(),
                        "order_literals": rtx.lits.iter().map(|(i, j)| format!("d{}<d{}", i, j)).collect::<Vec<_>>(),
                        "digest_symbols": rtx.nsyms(),
                        "hook_calls": rtx.path_hook_calls,
                        "notes": rtx.notes,
                        "outcome": format!("{:?}", outcome),
                    }));
                }
                if sample_choices.len() < 4 && matches!(outcome, Outcome::Ok) { sample_choices.push(rtx.choices.iter().map(|c| c.1).collect()); }
                local_tree_buf.push(pts);
                let newp: Vec<Pending> = std::mem::take(&mut rtx.pending);
                if local_tree_buf.len() >= 256 { let mut t = tree.lock().unwrap(); for p in local_tree_buf.drain(..) { t.insert(&p); } }
                {
                    let (m, cv) = &*shared;
                    let mut g = m.lock().unwrap();
                    g.inflight -= 1;
                    if g.paths >= max_paths { g.done = true; g.queue.clear(); }
                    else { g.queue.extend(newp); }
                    cv.notify_all();
                }
            }
            { let mut t = tree.lock().unwrap(); for p in local_tree_buf.drain(..) { t.insert(&p); } }
            let rtx = rtm.as_ref().unwrap();
            let mut a = agg.lock().unwrap();
            a.completed += completed; a.skipped += skipped; a.nontrivial += nontrivial; a.order_paths += order_paths;
            a.max_syms = a.max_syms.max(max_syms); a.max_depth = a.max_depth.max(max_depth);
            a.stats.queries += rtx.stats.queries; a.stats.pruned += rtx.stats.pruned; a.stats.forks += rtx.stats.forks;
            a.stats.hook_calls += rtx.stats.hook_calls; a.stats.hook_cached += rtx.stats.hook_cached; a.stats.solver_ns += rtx.stats.solver_ns;
            a.stats.entail_queries += rtx.stats.entail_queries;
            a.stats.solver_disagreements += rtx.stats.solver_disagreements; a.stats.solver_restarts += rtx.stats.solver_restarts;
            a.samples.extend(samples);
            a.sample_choices.extend(sample_choices);
        }).unwrap());
    }
    for h in handles { if h.join().is_err() { rt::inconclusive("worker thread died"); } }
    let mut rep = std::mem::take(&mut *agg.lock().unwrap());
    rep.scenario = sc.name.to_string();
    rep.paths = shared.0.lock().unwrap().paths;
    rep.violations = viols.lock().unwrap().values().cloned().collect();
    rep.samples.truncate(3);
    rep.sample_choices.truncate(12);
    if rep.paths >= max_paths { rep.incomplete = Some(format!("path budget {} exhausted", max_paths)); }

    // coverage certificate
    let tree = tree.lock().unwrap();
    rep.tree_nodes = tree.nodes.len() as u64;
    rep.tree_edges = tree.nodes.iter().map(|n| n.kids.len() as u64).sum();
    if rep.incomplete.is_none() {
        let tc = Instant::now();
        let (nd, nc) = tree.max_ids();
        let mut smt = String::from("(set-logic QF_LIA)\n");
        for i in 0..nd { smt += &format!("(declare-const d{} Int)\n", i); }
        if nd > 1 { smt += "(assert (distinct"; for i in 0..nd { smt += &format!(" d{}", i); } smt += "))\n"; }
        for k in 0..nc { smt += &format!("(declare-const c{} Int)\n", k); }
        let mut fml = String::new(); let mut leaves = 0u64;
        tree.formula(0, &mut fml, &mut leaves);
        smt += "(assert (not "; smt += &fml; smt += "))\n(check-sat)\n";
        rep.cert_bytes = smt.len();
        if leaves != rep.paths { rt::inconclusive(&format!("tree has {} leaves but {} paths were run", leaves, rep.paths)); }
        let dir = std::env::var("SYMORD_TMP").unwrap_or_else(|_| format!("{}/symord/target/tmp", root()));
        let _ = std::fs::create_dir_all(&dir);
        let path = format!("{}/cert-{}-{}.smt2", dir, sc.name, std::process::id());
        std::fs::File::create(&path).unwrap().write_all(smt.as_bytes()).unwrap();
        rep.cert = run_solver(&["/usr/bin/z3", &path]);
        if cfg.cvc5 { rep.cert_cvc5 = Some(run_solver(&["cvc5", "--lang", "smt2", &path])); }
        rep.cert_s = tc.elapsed().as_secs_f64();
        if let Some(k) = &cfg.keep_cert { let _ = std::fs::copy(&path, k); }
        let _ = std::fs::remove_file(&path);
        if rep.cert != "unsat" { rep.incomplete = Some(format!("coverage certificate: z3 answered {}", rep.cert)); }
        if let Some(c) = &rep.cert_cvc5 { if c != "unsat" { rep.incomplete = Some(format!("coverage certificate: cvc5 answered {}", c)); } }
    }
    rep.wall_s = t0.elapsed().as_secs_f64();
    rep
}

fn run_solver(cmd: &[&str]) -> String {
    match std::process::Command::new(cmd[0]).args(&cmd[1..]).output() {
        Ok(o) => {
            let s = String::from_utf8_lossy(&o.stdout).to_string();
            if s.contains("(error") { return format!("error: {}", s.trim()); }
            s.lines().next().unwrap_or("no answer").trim().to_string()
        }
        Err(e) => format!("cannot run {}: {}", cmd[0], e),
    }
}

/// concrete execution on the real hash order (replay binary and native validation)
pub fn run_concrete(f: fn() -> rt::R, choices: Vec<u32>, nonce: u64) -> Outcome {
    let mut rtm = Some(Rt::new(Mode::Concrete(choices), nonce));
    let (o, hp) = run_one_path(&mut rtm, f, Pending { values: vec![], sigs: vec![] });
    if let Some((loc, msg)) = hp { rt::inconclusive(&format!("harness panicked at {}: {}", loc, msg)); }
    o
}

/// directory of the framework (the check script exports it; a background snapshot run has its own)
pub fn root() -> String { std::env::var("SYMORD_ROOT").unwrap_or_else(|_| "/verif".to_string()) }
