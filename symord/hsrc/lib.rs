#![allow(unused_imports)]
pub mod rt;
pub mod engine;
pub mod spec;
pub mod refs;
pub mod props;
