//! Envelope shapes ("specs"): a small tree language, a builder that realises a spec
//! through the public API, a bounded enumerator, and reference digests computed from
//! the spec with `sha2` directly (independent of the code under test).

use crate::rt;
use bc_components::{DigestProvider, SymmetricKey};
use bc_envelope::prelude::*;
use sha2::{Digest as _, Sha256};

#[derive(Debug, Clone, PartialEq, Eq, Hash)]
pub enum Spec {
    /// text leaf with a unique marker; the number is the marker id
    Leaf(u32),
    /// known value
    Kv(u64),
    Wrap(Box<Spec>),
    Assert(Box<Spec>, Box<Spec>),
    /// subject + assertion elements (each an Assert, a Node over an Assert, or obscured)
    Node(Box<Spec>, Vec<Spec>),
    Elided(Box<Spec>),
    Encrypted(Box<Spec>),
    Compressed(Box<Spec>),
}
use Spec::*;

pub fn sha(data: &[u8]) -> [u8; 32] { Sha256::digest(data).into() }

/// independent minimal CBOR head encoder (major type, value)
pub fn cbor_head(major: u8, v: u64) -> Vec<u8> {
    let m = major << 5;
    if v < 24 { vec![m | v as u8] }
    else if v <= 0xff { vec![m | 24, v as u8] }
    else if v <= 0xffff { let mut o = vec![m | 25]; o.extend_from_slice(&(v as u16).to_be_bytes()); o }
    else if v <= 0xffff_ffff { let mut o = vec![m | 26]; o.extend_from_slice(&(v as u32).to_be_bytes()); o }
    else { let mut o = vec![m | 27]; o.extend_from_slice(&v.to_be_bytes()); o }
}
pub fn cbor_text(s: &str) -> Vec<u8> { let mut o = cbor_head(3, s.len() as u64); o.extend_from_slice(s.as_bytes()); o }

/// the text carried by leaf `id` on this run (unique marker, perturbed by the seed/nonce)
pub fn leaf_text(id: u32) -> String { format!("leaf<{:03}>#{:x}", id, rt::nonce()) }

impl Spec {
    pub fn size(&self) -> usize {
        match self {
            Leaf(_) | Kv(_) => 1,
            Wrap(x) => 1 + x.size(),
            Assert(p, o) => 1 + p.size() + o.size(),
            Node(s, a) => 1 + s.size() + a.iter().map(|x| x.size()).sum::<usize>(),
            Elided(_) | Encrypted(_) | Compressed(_) => 1,
        }
    }
    pub fn is_obscured(&self) -> bool { matches!(self, Elided(_) | Encrypted(_) | Compressed(_)) }
    /// can stand in an assertion slot
    pub fn is_assertion_like(&self) -> bool {
        match self {
            Assert(..) => true,
            Node(s, _) => s.is_assertion_like(),
            Elided(x) | Encrypted(x) | Compressed(x) => x.is_assertion_like(),
            _ => false,
        }
    }
    /// compact text form for evidence / replay files
    pub fn show(&self) -> String {
        match self {
            Leaf(i) => format!("L{}", i),
            Kv(v) => format!("K{}", v),
            Wrap(x) => format!("W({})", x.show()),
            Assert(p, o) => format!("{}:{}", p.show(), o.show()),
            Node(s, a) => format!("{} [{}]", s.show(), a.iter().map(|x| x.show()).collect::<Vec<_>>().join(", ")),
            Elided(x) => format!("ELIDED({})", x.show()),
            Encrypted(x) => format!("ENCRYPTED({})", x.show()),
            Compressed(x) => format!("COMPRESSED({})", x.show()),
        }
    }
}

pub fn test_key() -> SymmetricKey {
    let mut k = [0u8; 32];
    k[..8].copy_from_slice(&rt::nonce().to_be_bytes());
    k[31] = 0x5a;
    SymmetricKey::from_data(k)
}
pub fn other_key() -> SymmetricKey {
    let mut k = [0u8; 32];
    k[..8].copy_from_slice(&rt::nonce().to_be_bytes());
    k[31] = 0xa5;
    SymmetricKey::from_data(k)
}

/// Build the envelope through the public API. Assertions are added in the listed order;
/// callers that want another insertion order permute the spec first.
pub fn build(s: &Spec) -> Envelope {
    match s {
        Leaf(i) => Envelope::new(leaf_text(*i)),
        Kv(v) => Envelope::new(KnownValue::new(*v)),
        Wrap(x) => build(x).wrap_envelope(),
        Assert(p, o) => Envelope::new_assertion(build(p), build(o)),
        Node(sub, asserts) => {
            let mut e = build(sub);
            if matches!(**sub, Node(..)) {
                // a node whose subject is a node: reachable through the API by compressing the inner node,
                // adding assertions to the compressed element and uncompressing the subject again
                // (no harness-side ordering is involved: every sort is the library's)
                let mut x = e.compress().unwrap_or_else(|err| crate::engine::refused("compress of a node", err));
                for a in asserts { x = x.add_assertion_envelope(build(a)).unwrap_or_else(|err| crate::engine::refused("add_assertion_envelope of an assertion element", err)); }
                return x.uncompress_subject().unwrap_or_else(|err| crate::engine::refused("uncompress_subject", err));
            }
            for a in asserts { e = e.add_assertion_envelope(build(a)).unwrap_or_else(|err| crate::engine::refused("add_assertion_envelope of an assertion element", err)); }
            e
        }
        Elided(x) => build(x).elide(),
        Encrypted(x) => {
            let e = build(x);
            let t: std::collections::HashSet<Digest> = [e.digest().into_owned()].into_iter().collect();
            e.elide_removing_set_with_action(&t, &ObscureAction::Encrypt(test_key()))
        }
        Compressed(x) => build(x).compress().unwrap_or_else(|err| crate::engine::refused("compress", err)),
    }
}

pub fn insertion_sort<T>(v: &mut [T], lt: impl Fn(&T, &T) -> bool) {
    for i in 1..v.len() {
        let mut j = i;
        while j > 0 && lt(&v[j], &v[j - 1]) { v.swap(j, j - 1); j -= 1; }
    }
}

/// Digest the specification assigns to the spec'd envelope (draft sections 4.1-4.5 + the
/// extension rules for known values and declared digests), computed with sha2 only.
/// Node: assertions in ascending order = order entailed by the path condition (else real bytes).
pub fn spec_digest(s: &Spec) -> [u8; 32] {
    match s {
        Leaf(i) => sha(&cbor_text(&leaf_text(*i))),
        Kv(v) => { let mut img = cbor_head(6, 40000); img.extend(cbor_head(0, *v)); sha(&img) }
        Wrap(x) => sha(&spec_digest(x)),
        Assert(p, o) => { let mut img = spec_digest(p).to_vec(); img.extend_from_slice(&spec_digest(o)); sha(&img) }
        Node(sub, asserts) => {
            let mut ds: Vec<[u8; 32]> = asserts.iter().map(spec_digest).collect();
            insertion_sort(&mut ds, |a, b| rt::before(a, b));
            ds.dedup();
            let mut img = spec_digest(sub).to_vec();
            for d in ds { img.extend_from_slice(&d); }
            sha(&img)
        }
        Elided(x) | Encrypted(x) | Compressed(x) => spec_digest(x),
    }
}

// ---------------------------------------------------------------------------------------
// bounded enumeration

pub struct EnumOpts {
    pub max_size: usize,
    pub max_assertions: usize,
    /// allow known values at predicate and subject positions
    pub kv: bool,
    /// allow decorated assertions (an assertion carrying assertions)
    pub decorated: bool,
    /// allow obscured elements (elided / encrypted / compressed) at any position
    pub obscured: bool,
    pub wrap: bool,
}

/// all specs of exactly `size` elements that can stand at a non-assertion position.
/// Leaves are numbered later (`relabel`) so that every leaf is unique.
fn elems(size: usize, o: &EnumOpts, allow_kv: bool, memo: &mut Memo) -> Vec<Spec> {
    if size == 0 { return vec![]; }
    let key = (0u8, size, allow_kv);
    if let Some(v) = memo.get(&key) { return v.clone(); }
    let mut out = vec![];
    if size == 1 {
        out.push(Leaf(0));
        if allow_kv && o.kv { out.push(Kv(0)); }
        if o.obscured { out.push(Elided(Box::new(Leaf(0)))); out.push(Encrypted(Box::new(Leaf(0)))); out.push(Compressed(Box::new(Leaf(0)))); }
    } else {
        if o.wrap {
            // at most two wraps in a row
            for x in elems(size - 1, o, true, memo) { if !matches!(&x, Wrap(y) if matches!(**y, Wrap(_))) { out.push(Wrap(Box::new(x))); } }
            for x in asserts(size - 1, o, memo) { out.push(Wrap(Box::new(x))); }
        }
        // node: subject (not itself a node) + 1..max assertions
        for ssz in 1..size.saturating_sub(3) {
            let rest = size - 1 - ssz;
            let subs: Vec<Spec> = elems(ssz, o, true, memo).into_iter().filter(|s| !matches!(s, Node(..))).collect();
            if subs.is_empty() { continue; }
            for alist in assertion_multisets(rest, o.max_assertions, o, memo) {
                for s in &subs { out.push(Node(Box::new(s.clone()), alist.clone())); }
            }
        }
    }
    memo.insert(key, out.clone());
    out
}

type Memo = std::collections::HashMap<(u8, usize, bool), Vec<Spec>>;

/// all specs of exactly `size` elements that can stand in an assertion slot
fn asserts(size: usize, o: &EnumOpts, memo: &mut Memo) -> Vec<Spec> {
    let key = (1u8, size, false);
    if let Some(v) = memo.get(&key) { return v.clone(); }
    let mut out = vec![];
    if size == 1 && o.obscured {
        let a = Assert(Box::new(Leaf(0)), Box::new(Leaf(0)));
        out.push(Elided(Box::new(a.clone())));
        out.push(Compressed(Box::new(a)));
    }
    if size >= 3 {
        for psz in 1..=size - 2 {
            let osz = size - 1 - psz;
            for p in elems(psz, o, true, memo) {
                for ob in elems(osz, o, false, memo) {
                    out.push(Assert(Box::new(p.clone()), Box::new(ob)));
                }
            }
        }
    }
    if o.decorated && size >= 7 {
        // decorated assertion: node(assertion; assertions)
        for ssz in 3..=size - 4 {
            let rest = size - 1 - ssz;
            let subs: Vec<Spec> = asserts(ssz, o, memo).into_iter().filter(|s| matches!(s, Assert(..))).collect();
            for alist in assertion_multisets(rest, 1, o, memo) {
                for s in &subs { out.push(Node(Box::new(s.clone()), alist.clone())); }
            }
        }
    }
    memo.insert(key, out.clone());
    out
}

/// multisets of 1..=max assertion specs with total size `total` (non-increasing sizes to cut symmetry)
fn assertion_multisets(total: usize, max: usize, o: &EnumOpts, memo: &mut Memo) -> Vec<Vec<Spec>> {
    fn rec(total: usize, max: usize, cap: usize, o: &EnumOpts, memo: &mut Memo) -> Vec<Vec<Spec>> {
        let mut out = vec![];
        if total == 0 { return vec![vec![]]; }
        if max == 0 { return out; }
        for first in (1..=total.min(cap)).rev() {
            let heads = asserts(first, o, memo);
            if heads.is_empty() { continue; }
            let tails = rec(total - first, max - 1, first, o, memo);
            for t in &tails {
                for h in &heads {
                    // same-size neighbours: keep only non-decreasing index to cut permutations
                    let mut v = vec![h.clone()];
                    v.extend(t.iter().cloned());
                    out.push(v);
                }
            }
        }
        out
    }
    let mut all = rec(total, max, total, o, memo);
    // remove permutation duplicates
    let mut seen = std::collections::HashSet::new();
    all.retain(|v| { let mut k: Vec<String> = v.iter().map(|s| s.show()).collect(); k.sort(); seen.insert(k.join("|")) });
    all.retain(|v| !v.is_empty());
    all
}

/// give every leaf / known value a unique id, depth first
pub fn relabel(s: &Spec, next: &mut u32) -> Spec {
    match s {
        Leaf(_) => { *next += 1; Leaf(*next) }
        Kv(_) => { *next += 1; Kv(1000 + *next as u64) }
        Wrap(x) => Wrap(Box::new(relabel(x, next))),
        Assert(p, o) => { let p = relabel(p, next); let o = relabel(o, next); Assert(Box::new(p), Box::new(o)) }
        Node(sub, a) => { let sub = relabel(sub, next); Node(Box::new(sub), a.iter().map(|x| relabel(x, next)).collect()) }
        Elided(x) => Elided(Box::new(relabel(x, next))),
        Encrypted(x) => Encrypted(Box::new(relabel(x, next))),
        Compressed(x) => Compressed(Box::new(relabel(x, next))),
    }
}

/// every top-level envelope shape with at most `max_size` elements
pub fn enumerate(o: &EnumOpts) -> Vec<Spec> {
    let mut memo = Memo::new();
    let mut out = vec![];
    for sz in 1..=o.max_size {
        for s in elems(sz, o, true, &mut memo) { let mut n = 0; out.push(relabel(&s, &mut n)); }
        for s in asserts(sz, o, &mut memo) { let mut n = 0; out.push(relabel(&s, &mut n)); }
    }
    let mut seen = std::collections::HashSet::new();
    out.retain(|s| seen.insert(s.clone()));
    out
}

// helpers to write shapes by hand
pub fn l(i: u32) -> Spec { Leaf(i) }
pub fn k(v: u64) -> Spec { Kv(v) }
pub fn w(x: Spec) -> Spec { Wrap(Box::new(x)) }
pub fn a(p: Spec, o: Spec) -> Spec { Assert(Box::new(p), Box::new(o)) }
pub fn n(s: Spec, v: Vec<Spec>) -> Spec { Node(Box::new(s), v) }
pub fn el(x: Spec) -> Spec { Elided(Box::new(x)) }
pub fn en(x: Spec) -> Spec { Encrypted(Box::new(x)) }
pub fn co(x: Spec) -> Spec { Compressed(Box::new(x)) }

/// hand-written larger shapes: 3-4 assertions, decorated assertions, nesting under
/// wrapped / predicate / object, obscured children, node whose subject is a node.
pub fn specials() -> Vec<Spec> {
    vec![
        n(l(1), vec![a(l(2), l(3)), a(l(4), l(5)), a(l(6), l(7))]),
        n(l(1), vec![a(l(2), l(3)), a(l(4), l(5)), a(l(6), l(7)), a(l(8), l(9))]),
        n(k(1001), vec![a(k(1002), l(3)), a(k(1003), k(1004)), a(l(6), w(l(7)))]),
        // decorated assertions
        n(l(1), vec![n(a(l(2), l(3)), vec![a(l(4), l(5))]), a(l(6), l(7))]),
        n(l(1), vec![n(a(l(2), l(3)), vec![a(l(4), l(5)), a(l(8), l(9))]), a(l(6), l(7)), a(l(10), l(11))]),
        // object is a node, predicate is a node
        n(l(1), vec![a(l(2), n(l(3), vec![a(l(4), l(5)), a(l(6), l(7))])), a(l(8), l(9))]),
        n(l(1), vec![a(n(l(2), vec![a(l(3), l(4))]), l(5)), a(l(8), l(9))]),
        // wrapped interior with its own assertions, assertions outside too
        n(w(n(l(1), vec![a(l(2), l(3)), a(l(4), l(5))])), vec![a(l(6), l(7)), a(l(8), l(9))]),
        w(w(n(l(1), vec![a(l(2), l(3))]))),
        // assertion as subject
        n(a(l(1), l(2)), vec![a(l(3), l(4)), a(l(5), l(6))]),
        // obscured children
        n(el(l(1)), vec![a(l(2), l(3)), el(a(l(4), l(5))), a(l(6), l(7))]),
        n(en(l(1)), vec![a(l(2), l(3)), co(a(l(4), l(5)))]),
        n(co(l(1)), vec![en(a(l(2), l(3))), a(l(4), el(l(5)))]),
        n(l(1), vec![a(el(l(2)), l(3)), a(l(4), co(w(l(5)))), a(en(l(6)), en(l(7)))]),
        // node whose subject is a node (decoder only)
        n(n(l(1), vec![a(l(2), l(3))]), vec![a(l(4), l(5)), a(l(6), l(7))]),
        // the subject's digest repeated among its own assertion elements (an assertion carrying itself; a subject with its own elided twin)
        n(a(l(1), l(2)), vec![a(l(1), l(2))]),
        n(a(l(1), l(2)), vec![a(l(1), l(2)), a(l(3), l(4))]),
        n(l(1), vec![el(l(1)), a(l(2), l(3))]),
        // an assertion that keeps its own assertions while its inner assertion is compressed / encrypted / elided
        n(l(1), vec![n(co(a(l(2), l(3))), vec![a(l(4), l(5))]), a(l(6), l(7))]),
        n(l(1), vec![n(en(a(l(2), l(3))), vec![a(l(4), l(5))]), n(el(a(l(6), l(7))), vec![a(l(8), l(9))])]),
        // small known values (one-byte encodings) at subject / predicate / object
        n(k(7), vec![a(k(8), k(9)), a(k(1), l(2))]),
        k(3),
        // repeated content at several positions
        n(l(1), vec![a(l(2), l(1)), a(l(3), w(l(1))), a(l(2), l(4))]),
        // several obscured assertion elements side by side (same kind, mixed kinds)
        n(l(1), vec![el(a(l(2), l(3))), el(a(l(4), l(5))), a(l(6), l(7))]),
        n(l(1), vec![en(a(l(2), l(3))), co(a(l(4), l(5))), el(a(l(6), l(7)))]),
        // predicate and object with the same digest in different obscuration states
        n(l(1), vec![a(el(l(2)), l(2)), a(l(3), co(l(3)))]),
        a(en(l(1)), l(1)),
        // a bare wrapper whose content is obscured as a whole
        w(el(l(1))),
        w(el(n(l(1), vec![a(l(2), l(3))]))),
        w(co(n(l(1), vec![a(l(2), l(3))]))),
    ]
}

/// cached catalogue: every shape up to `max_size` elements (+ the hand-written larger ones)
pub fn catalogue(max_size: usize, kv: bool, obscured: bool, with_specials: bool) -> std::sync::Arc<Vec<Spec>> {
    use std::sync::{Arc, Mutex, OnceLock};
    static CACHE: OnceLock<Mutex<std::collections::HashMap<(usize, bool, bool, bool), Arc<Vec<Spec>>>>> = OnceLock::new();
    let m = CACHE.get_or_init(|| Mutex::new(Default::default()));
    let mut g = m.lock().unwrap();
    g.entry((max_size, kv, obscured, with_specials)).or_insert_with(|| {
        let mut v = enumerate(&EnumOpts { max_size, max_assertions: 3, kv, decorated: true, obscured, wrap: true });
        if with_specials { v.extend(specials()); }
        Arc::new(v)
    }).clone()
}

/// all ways to obscure one or two positions of a spec (elide / encrypt / compress), excluding the root
pub fn obscure_at(s: &Spec, path: &[usize], how: usize) -> Option<Spec> {
    fn wrap_obs(x: Spec, how: usize) -> Spec { match how { 0 => Elided(Box::new(x)), 1 => Encrypted(Box::new(x)), _ => Compressed(Box::new(x)) } }
    if path.is_empty() { if s.is_obscured() { return None; } return Some(wrap_obs(s.clone(), how)); }
    let (i, rest) = (path[0], &path[1..]);
    match s {
        Wrap(x) if i == 0 => Some(Wrap(Box::new(obscure_at(x, rest, how)?))),
        Assert(p, o) if i == 0 => Some(Assert(Box::new(obscure_at(p, rest, how)?), o.clone())),
        Assert(p, o) if i == 1 => Some(Assert(p.clone(), Box::new(obscure_at(o, rest, how)?))),
        Node(sub, a) if i == 0 => Some(Node(Box::new(obscure_at(sub, rest, how)?), a.clone())),
        Node(sub, a) if i <= a.len() => { let mut a2 = a.clone(); a2[i - 1] = obscure_at(&a[i - 1], rest, how)?; Some(Node(sub.clone(), a2)) }
        _ => None,
    }
}
/// child paths of a spec in spec order (node: 0 = subject, 1.. = assertions as listed)
pub fn spec_paths(s: &Spec) -> Vec<Vec<usize>> {
    fn rec(s: &Spec, cur: &mut Vec<usize>, out: &mut Vec<Vec<usize>>) {
        out.push(cur.clone());
        let kids: Vec<&Spec> = match s { Wrap(x) => vec![x], Assert(p, o) => vec![p, o], Node(sub, a) => { let mut v: Vec<&Spec> = vec![sub]; v.extend(a.iter()); v } _ => vec![] };
        for (i, k) in kids.into_iter().enumerate() { cur.push(i); rec(k, cur, out); cur.pop(); }
    }
    let mut out = vec![]; rec(s, &mut vec![], &mut out); out
}
pub fn spec_at<'a>(s: &'a Spec, path: &[usize]) -> Option<&'a Spec> {
    if path.is_empty() { return Some(s); }
    let (i, rest) = (path[0], &path[1..]);
    match s {
        Wrap(x) if i == 0 => spec_at(x, rest),
        Assert(p, _) if i == 0 => spec_at(p, rest),
        Assert(_, o) if i == 1 => spec_at(o, rest),
        Node(sub, _) if i == 0 => spec_at(sub, rest),
        Node(_, a) if i <= a.len() => spec_at(&a[i - 1], rest),
        _ => None,
    }
}
