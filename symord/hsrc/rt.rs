//! SymOrd runtime: symbolic digest order + symbolic choices, decided by z3.
//!
//! One `Rt` per worker thread. The (patched) `Digest::cmp` calls `hook`, which asks
//! z3 whether `a<b` / `b<a` are consistent with the path condition; if both are,
//! the path forks (fork by re-execution: the sibling's decision prefix is queued).
//! `choice(n)` forks the same way. See /verif/DESIGN.md section 2.
//!
//! In *concrete* mode (replay binary, stock bc-components, no hook) `choice`
//! reads a recorded vector and order questions are answered by the real bytes.

use std::cell::RefCell;
use std::cmp::Ordering;
use std::collections::HashMap;
use std::io::{BufRead, BufReader, Write};
use std::process::{Child, ChildStdin, ChildStdout, Command, Stdio};
use std::time::Instant;

/// Why a path stopped before its end.
#[derive(Debug, Clone)]
pub enum Stop {
    /// `assume` was false: the path is outside the scenario's precondition.
    Skip,
    /// The property is violated on this path. `site` is a stable role key.
    Viol { site: String, msg: String },
}
pub type R<T = ()> = Result<T, Stop>;

pub fn viol<T>(site: &str, msg: impl Into<String>) -> R<T> {
    Err(Stop::Viol { site: site.to_string(), msg: msg.into() })
}

#[macro_export]
macro_rules! ensure {
    ($cond:expr, $site:expr, $($arg:tt)*) => {
        if !($cond) { return $crate::rt::viol($site, format!($($arg)*)); }
    };
}
/// unwrap a library `Result` that the property says must be `Ok`
#[macro_export]
macro_rules! must {
    ($e:expr, $site:expr) => {
        match $e { Ok(v) => v, Err(err) => return $crate::rt::viol($site, format!("unexpected Err: {}", err)) }
    };
}
#[macro_export]
macro_rules! must_some {
    ($e:expr, $site:expr) => {
        match $e { Some(v) => v, None => return $crate::rt::viol($site, "unexpected None".to_string()) }
    };
}

#[derive(Debug, Clone, PartialEq, Eq)]
pub enum Sig {
    Hook(usize, usize),
    Choice(usize, u32),
}

/// one forking decision point on a path
#[derive(Debug, Clone)]
pub struct Point {
    pub sig: Sig,
    pub feasible: Vec<u32>,
    pub taken: u32,
}

#[derive(Debug, Clone, Default)]
pub struct Stats {
    pub queries: u64,
    pub pruned: u64,
    pub forks: u64,
    pub hook_calls: u64,
    pub hook_cached: u64,
    pub solver_ns: u128,
    pub entail_queries: u64,
    /// answers of the solver that an independent transitive-closure audit contradicted (solver restarted and re-asked)
    pub solver_disagreements: u64,
    pub solver_restarts: u64,
}

pub struct Pending {
    pub values: Vec<u32>,
    pub sigs: Vec<Sig>,
}

struct Z3 {
    _child: Child,
    zin: ChildStdin,
    zout: BufReader<ChildStdout>,
}

impl Z3 {
    fn new() -> Z3 {
        let bin = std::env::var("SYMORD_Z3").unwrap_or_else(|_| "/usr/bin/z3".to_string());
        let mut c = Command::new(bin)
            .arg("-in")
            .stdin(Stdio::piped())
            .stdout(Stdio::piped())
            .stderr(Stdio::null())
            .spawn()
            .expect("cannot start z3");
        let zin = c.stdin.take().unwrap();
        let zout = BufReader::new(c.stdout.take().unwrap());
        let mut z = Z3 { _child: c, zin, zout };
        z.send("(set-logic QF_LIA)");
        z
    }
    fn send(&mut self, s: &str) {
        self.zin.write_all(s.as_bytes()).unwrap();
        self.zin.write_all(b"\n").unwrap();
    }
    fn read_answer(&mut self) -> bool {
        self.zin.flush().unwrap();
        let mut line = String::new();
        self.zout.read_line(&mut line).unwrap();
        match line.trim() {
            "sat" => true,
            "unsat" => false,
            o => inconclusive(&format!("z3 answered {:?}", o)),
        }
    }
}
impl Drop for Z3 {
    fn drop(&mut self) {
        let _ = self.zin.write_all(b"(exit)\n");
        let _ = self.zin.flush();
        let _ = self._child.wait();
    }
}

pub fn inconclusive(msg: &str) -> ! {
    eprintln!("INCONCLUSIVE: {}", msg);
    println!("INCONCLUSIVE: {}", msg);
    std::process::exit(2);
}

pub enum Mode {
    Symbolic,
    /// recorded choice values by choice index; order = real bytes
    Concrete(Vec<u32>),
}

pub struct Rt {
    z3: Option<Z3>,
    pub mode: Mode,
    syms: HashMap<[u8; 32], usize>,
    known: HashMap<(usize, usize), bool>, // (i,j) -> i<j entailed (true) / j<i entailed (false)
    pub lits: Vec<(usize, usize)>,        // path condition, order part: (i,j) means d_i < d_j
    prefix: Vec<u32>,
    prefix_sigs: Vec<Sig>,
    pub points: Vec<Point>,
    pub choices: Vec<(u32, u32)>, // all choice calls on this path (n, value), forking or not
    pub pending: Vec<Pending>,
    pub stats: Stats,
    pub nonce: u64,
    pub active: bool,
    pub notes: Vec<String>,
    pub path_hook_calls: u64,
    /// audit: reach[i] bit j set <=> d_i < d_j follows from the asserted literals (transitive closure)
    reach: Vec<u64>,
    paths_on_this_solver: u64,
}

thread_local! {
    pub static RT: RefCell<Option<Rt>> = const { RefCell::new(None) };
}

impl Rt {
    pub fn new(mode: Mode, nonce: u64) -> Rt {
        let z3 = match mode { Mode::Symbolic => Some(Z3::new()), Mode::Concrete(_) => None };
        Rt {
            z3, mode, syms: HashMap::new(), known: HashMap::new(), lits: vec![], prefix: vec![], prefix_sigs: vec![],
            points: vec![], choices: vec![], pending: vec![], stats: Stats::default(), nonce, active: false, notes: vec![],
            path_hook_calls: 0, reach: vec![], paths_on_this_solver: 0,
        }
    }

    pub fn begin(&mut self, p: Pending) {
        // a long-lived incremental session is restarted now and then (a rare wrong answer was observed after
        // ~10^6 push/pop rounds on one z3 4.8.12 process; every answer is also audited, see `audited`)
        self.paths_on_this_solver += 1;
        if self.z3.is_some() && self.paths_on_this_solver > 20_000 { self.z3 = Some(Z3::new()); self.paths_on_this_solver = 0; self.stats.solver_restarts += 1; }
        self.reach.clear();
        if let Some(z) = self.z3.as_mut() { z.send("(push)"); }
        self.syms.clear();
        self.known.clear();
        self.lits.clear();
        self.prefix = p.values;
        self.prefix_sigs = p.sigs;
        self.points.clear();
        self.choices.clear();
        self.notes.clear();
        self.path_hook_calls = 0;
        self.active = true;
    }

    pub fn end(&mut self) {
        self.active = false;
        if let Some(z) = self.z3.as_mut() { z.send("(pop)"); }
    }

    pub fn nsyms(&self) -> usize { self.syms.len() }
    /// the decision prefix this path was started with
    pub fn forced_prefix(&self) -> Vec<(Sig, u32)> { self.prefix_sigs.iter().cloned().zip(self.prefix.iter().cloned()).collect() }

    fn sym(&mut self, d: &[u8; 32]) -> usize {
        if let Some(i) = self.syms.get(d) { return *i; }
        let i = self.syms.len();
        let z = self.z3.as_mut().unwrap();
        z.send(&format!("(declare-const d{} Int)", i));
        if i > 0 {
            let mut s = String::from("(assert (and");
            for j in 0..i { s += &format!(" (not (= d{} d{}))", i, j); }
            s += "))";
            z.send(&s);
        }
        self.syms.insert(*d, i);
        self.reach.push(0);
        if i >= 64 { inconclusive("more than 64 digest symbols on one path"); }
        i
    }

    fn check(&mut self, extra: &str) -> bool {
        self.stats.queries += 1;
        let t = Instant::now();
        let z = self.z3.as_mut().unwrap();
        z.send("(push)");
        z.send(extra);
        z.send("(check-sat)");
        z.send("(pop)");
        let r = z.read_answer();
        self.stats.solver_ns += t.elapsed().as_nanos();
        r
    }

    /// two independent queries, pipelined (one flush, two answers)
    fn check2(&mut self, e1: &str, e2: &str) -> (bool, bool) {
        self.stats.queries += 2;
        let t = Instant::now();
        let z = self.z3.as_mut().unwrap();
        for e in [e1, e2] { z.send("(push)"); z.send(e); z.send("(check-sat)"); z.send("(pop)"); }
        let a = z.read_answer();
        let b = z.read_answer();
        self.stats.solver_ns += t.elapsed().as_nanos();
        (a, b)
    }

    /// take a decision among `feasible` (subset of 0..n); forks when more than one
    fn decide(&mut self, sig: Sig, feasible: Vec<u32>) -> u32 {
        assert!(!feasible.is_empty());
        if feasible.len() == 1 { return feasible[0]; }
        let pos = self.points.len();
        let v = if pos < self.prefix.len() {
            if self.prefix_sigs.len() <= pos { /* debug replay without recorded signatures */ }
            else if self.prefix_sigs[pos] != sig || !feasible.contains(&self.prefix[pos]) {
                inconclusive(&format!(
                    "scenario is not deterministic under re-execution: at decision {} expected {:?}, saw {:?}",
                    pos, self.prefix_sigs[pos], sig
                ));
            }
            self.prefix[pos]
        } else {
            self.stats.forks += 1;
            let mut values: Vec<u32> = self.points.iter().map(|p| p.taken).collect();
            let mut sigs: Vec<Sig> = self.points.iter().map(|p| p.sig.clone()).collect();
            sigs.push(sig.clone());
            for a in &feasible[1..] {
                values.push(*a);
                self.pending.push(Pending { values: values.clone(), sigs: sigs.clone() });
                values.pop();
            }
            feasible[0]
        };
        self.points.push(Point { sig, feasible, taken: v });
        v
    }

    fn assert_lt(&mut self, i: usize, j: usize) {
        let z = self.z3.as_mut().unwrap();
        z.send(&format!("(assert (< d{} d{}))", i, j));
        self.lits.push((i, j));
        self.known.insert((i, j), true);
        self.known.insert((j, i), false);
        let add = (1u64 << j) | self.reach[j];
        for a in 0..self.reach.len() { if a == i || self.reach[a] >> i & 1 == 1 { self.reach[a] |= add; } }
    }

    /// rebuild the solver session for the current path from the recorded symbols and literals
    fn resync(&mut self) {
        let mut z = Z3::new();
        z.send("(push)");
        for i in 0..self.syms.len() {
            z.send(&format!("(declare-const d{} Int)", i));
            if i > 0 { let mut t = String::from("(assert (and"); for j in 0..i { t += &format!(" (not (= d{} d{}))", i, j); } t += "))"; z.send(&t); }
        }
        for (i, j) in &self.lits { z.send(&format!("(assert (< d{} d{}))", i, j)); }
        self.z3 = Some(z);
        self.paths_on_this_solver = 0;
        self.stats.solver_restarts += 1;
    }

    /// feasibility of (d_i < d_j, d_j < d_i) under the path condition: the solver's answer, audited against the
    /// transitive closure of the literals (for a strict order on distinct values, i<j is feasible iff j<i is not entailed)
    fn audited(&mut self, i: usize, j: usize) -> (bool, bool) {
        let expect = (self.reach[j] >> i & 1 == 0, self.reach[i] >> j & 1 == 0);
        for attempt in 0..2 {
            let got = self.check2(&format!("(assert (< d{} d{}))", i, j), &format!("(assert (< d{} d{}))", j, i));
            if got == expect { return got; }
            self.stats.solver_disagreements += 1;
            eprintln!("SOLVER-AUDIT: z3 answered {:?} for d{} ? d{} where the closure of {:?} gives {:?} (attempt {}); restarting the solver", got, i, j, self.lits, expect, attempt);
            self.resync();
        }
        inconclusive("solver and closure audit disagree twice on the same query");
    }

    pub fn cmp(&mut self, a: &[u8; 32], b: &[u8; 32]) -> Ordering {
        if a == b { return Ordering::Equal; }
        self.stats.hook_calls += 1;
        self.path_hook_calls += 1;
        let (i, j) = (self.sym(a), self.sym(b));
        if let Some(k) = self.known.get(&(i, j)) {
            self.stats.hook_cached += 1;
            return if *k { Ordering::Less } else { Ordering::Greater };
        }
        let (lt, gt) = self.audited(i, j);
        if !lt && !gt { inconclusive("path condition became unsatisfiable"); }
        if !(lt && gt) {
            self.stats.pruned += 1;
            self.known.insert((i, j), lt);
            self.known.insert((j, i), !lt);
            return if lt { Ordering::Less } else { Ordering::Greater };
        }
        let v = self.decide(Sig::Hook(i, j), vec![0, 1]);
        if v == 0 { self.assert_lt(i, j); Ordering::Less } else { self.assert_lt(j, i); Ordering::Greater }
    }

    /// is `a < b` entailed by the path condition? None when the two were never related
    /// and both orders are still possible.
    pub fn entailed(&mut self, a: &[u8; 32], b: &[u8; 32]) -> Option<bool> {
        if a == b { return Some(false); }
        let (i, j) = match (self.syms.get(a), self.syms.get(b)) {
            (Some(i), Some(j)) => (*i, *j),
            _ => return None,
        };
        if let Some(k) = self.known.get(&(i, j)) { return Some(*k); }
        self.stats.entail_queries += 1;
        let (can_lt, can_ge) = self.audited(i, j);
        if !can_ge { self.known.insert((i, j), true); self.known.insert((j, i), false); return Some(true); }
        if !can_lt { self.known.insert((i, j), false); self.known.insert((j, i), true); return Some(false); }
        None
    }

    pub fn choice(&mut self, n: u32) -> u32 {
        assert!(n >= 1);
        let k = self.choices.len();
        let v = match &self.mode {
            Mode::Concrete(c) => {
                let v = c.get(k).copied().unwrap_or(0);
                if v >= n { 0 } else { v }
            }
            Mode::Symbolic => self.decide(Sig::Choice(k, n), (0..n).collect()),
        };
        self.choices.push((n, v));
        v
    }
}

/// the function installed in the patched `Digest::cmp`
/// fallback mode (see main.rs): the order of digests is the real byte order, only the choice variables stay symbolic
pub fn real_order() -> bool {
    static V: std::sync::OnceLock<bool> = std::sync::OnceLock::new();
    *V.get_or_init(|| std::env::var("SYMORD_REAL_ORDER").is_ok())
}

pub fn hook(a: &[u8; 32], b: &[u8; 32]) -> Ordering {
    if real_order() { return a.cmp(b); }
    RT.with(|r| {
        let mut g = r.borrow_mut();
        match g.as_mut() {
            Some(rt) if rt.active && matches!(rt.mode, Mode::Symbolic) => rt.cmp(a, b),
            _ => a.cmp(b),
        }
    })
}

fn with<T>(f: impl FnOnce(&mut Rt) -> T) -> T {
    RT.with(|r| f(r.borrow_mut().as_mut().expect("no runtime on this thread")))
}

/// symbolic choice in 0..n
pub fn choice(n: usize) -> usize { with(|rt| rt.choice(n as u32) as usize) }
pub fn flag() -> bool { choice(2) == 1 }
pub fn nonce() -> u64 { with(|rt| rt.nonce) }
pub fn note(s: impl Into<String>) { with(|rt| rt.notes.push(s.into())) }
pub fn assume(c: bool) -> R { if c { Ok(()) } else { Err(Stop::Skip) } }

/// "a sorts before b": the order entailed by the path condition if the code under
/// test related a and b on this path, else the real byte order (DESIGN 2.3).
pub fn before(a: &[u8; 32], b: &[u8; 32]) -> bool {
    with(|rt| match rt.mode {
        Mode::Symbolic => rt.entailed(a, b).unwrap_or_else(|| a < b),
        Mode::Concrete(_) => a < b,
    })
}
/// Some(x) only when the path condition entails an order between a and b
pub fn entailed_lt(a: &[u8; 32], b: &[u8; 32]) -> Option<bool> {
    with(|rt| match rt.mode {
        Mode::Symbolic => rt.entailed(a, b),
        Mode::Concrete(_) => Some(a < b),
    })
}

/// symbolic permutation of 0..n by successive choices
pub fn perm(n: usize) -> Vec<usize> {
    let mut rest: Vec<usize> = (0..n).collect();
    let mut out = vec![];
    while !rest.is_empty() {
        let k = choice(rest.len());
        out.push(rest.remove(k));
    }
    out
}
/// symbolic subset of 0..n as a bit vector
pub fn subset(n: usize) -> Vec<bool> { (0..n).map(|_| flag()).collect() }

/// thorough tier?
pub fn thorough() -> bool {
    static T: std::sync::OnceLock<bool> = std::sync::OnceLock::new();
    *T.get_or_init(|| std::env::var("SYMORD_TIER").map(|t| t == "thorough").unwrap_or(false))
}
