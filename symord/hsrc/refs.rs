//! Reference implementations written from the specification / documentation:
//! independent traversal over `Envelope::case()`, digest recomputation, a grammar
//! recogniser over the serialized bytes, reference elision semantics.

use crate::rt;
use crate::spec::{cbor_head, insertion_sort, sha};
use bc_components::DigestProvider;
use bc_envelope::base::envelope::EnvelopeCase;
use bc_envelope::prelude::*;
#[allow(unused_imports)]
use dcbor::prelude::*;
use std::collections::HashSet;

pub type D = [u8; 32];
pub fn dg(e: &Envelope) -> D { *e.digest().data() }

#[derive(Debug, Clone, Copy, PartialEq, Eq, Hash)]
pub enum Kind { Node, Leaf, Wrapped, Assertion, Elided, Known, Encrypted, Compressed }

pub fn kind(e: &Envelope) -> Kind {
    match e.case() {
        EnvelopeCase::Node { .. } => Kind::Node,
        EnvelopeCase::Leaf { .. } => Kind::Leaf,
        EnvelopeCase::Wrapped { .. } => Kind::Wrapped,
        EnvelopeCase::Assertion(_) => Kind::Assertion,
        EnvelopeCase::Elided(_) => Kind::Elided,
        EnvelopeCase::KnownValue { .. } => Kind::Known,
        EnvelopeCase::Encrypted(_) => Kind::Encrypted,
        EnvelopeCase::Compressed(_) => Kind::Compressed,
    }
}
pub fn is_obscured_kind(k: Kind) -> bool { matches!(k, Kind::Elided | Kind::Encrypted | Kind::Compressed) }

/// children in structural order with the edge kind
pub fn children(e: &Envelope) -> Vec<(EdgeType, Envelope)> {
    match e.case() {
        EnvelopeCase::Node { subject, assertions, .. } => {
            let mut v = vec![(EdgeType::Subject, subject.clone())];
            v.extend(assertions.iter().map(|a| (EdgeType::Assertion, a.clone())));
            v
        }
        EnvelopeCase::Wrapped { envelope, .. } => vec![(EdgeType::Wrapped, envelope.clone())],
        EnvelopeCase::Assertion(a) => vec![(EdgeType::Predicate, a.predicate()), (EdgeType::Object, a.object())],
        _ => vec![],
    }
}

#[derive(Debug, Clone)]
pub struct Pos { pub path: Vec<usize>, pub env: Envelope, pub level: usize, pub edge: EdgeType, pub kind: Kind, pub d: D }

/// pre-order listing of every element (structure walk)
pub fn positions(e: &Envelope) -> Vec<Pos> {
    fn rec(e: &Envelope, path: &mut Vec<usize>, level: usize, edge: EdgeType, out: &mut Vec<Pos>) {
        out.push(Pos { path: path.clone(), env: e.clone(), level, edge, kind: kind(e), d: dg(e) });
        for (i, (ed, c)) in children(e).into_iter().enumerate() {
            path.push(i);
            rec(&c, path, level + 1, ed, out);
            path.pop();
        }
    }
    let mut out = vec![];
    rec(e, &mut vec![], 0, EdgeType::None, &mut out);
    out
}

pub fn at<'a>(ps: &'a [Pos], path: &[usize]) -> Option<&'a Pos> { ps.iter().find(|p| p.path == path) }

/// Digest recomputed from the children (spec 4.1-4.5); obscured cases: the declared digest.
/// Returns Err(description) when the structure is not well-formed.
pub fn recompute(e: &Envelope) -> Result<D, String> {
    match e.case() {
        EnvelopeCase::Leaf { cbor, .. } => Ok(sha(&cbor.to_cbor_data())),
        EnvelopeCase::KnownValue { value, .. } => { let mut img = cbor_head(6, 40000); img.extend(cbor_head(0, value.value())); Ok(sha(&img)) }
        EnvelopeCase::Wrapped { envelope, .. } => Ok(sha(&recompute(envelope)?)),
        EnvelopeCase::Assertion(a) => { let mut img = recompute(&a.predicate())?.to_vec(); img.extend_from_slice(&recompute(&a.object())?); Ok(sha(&img)) }
        EnvelopeCase::Node { subject, assertions, .. } => {
            if assertions.is_empty() { return Err("node without assertions".into()); }
            let mut img = recompute(subject)?.to_vec();
            let mut ds = vec![];
            for a in assertions {
                if !assertion_like(a) { return Err(format!("non-assertion {:?} in assertion slot", kind(a))); }
                ds.push(recompute(a)?);
            }
            for w in ds.windows(2) {
                if w[0] == w[1] { return Err("two assertion elements with the same digest".into()); }
                if !rt::before(&w[0], &w[1]) { return Err("assertion elements not in ascending digest order".into()); }
            }
            for d in ds { img.extend_from_slice(&d); }
            Ok(sha(&img))
        }
        EnvelopeCase::Elided(d) => Ok(*d.data()),
        EnvelopeCase::Encrypted(m) => m.opt_digest().map(|d| *d.data()).ok_or_else(|| "encrypted element without digest".to_string()),
        EnvelopeCase::Compressed(c) => c.digest_ref_opt().map(|d| *d.data()).ok_or_else(|| "compressed element without digest".to_string()),
    }
}

/// may stand in an assertion slot: an assertion, an obscured element, or a node whose subject (recursively) is one
pub fn assertion_like(e: &Envelope) -> bool {
    match e.case() {
        EnvelopeCase::Assertion(_) | EnvelopeCase::Elided(_) | EnvelopeCase::Encrypted(_) | EnvelopeCase::Compressed(_) => true,
        EnvelopeCase::Node { subject, .. } => assertion_like(subject),
        _ => false,
    }
}

/// every position: stored digest == digest recomputed from children; structure well-formed
pub fn check_tree(e: &Envelope) -> Result<(), String> {
    for p in positions(e) {
        let r = recompute(&p.env).map_err(|m| format!("at {:?}: {}", p.path, m))?;
        if r != p.d { return Err(format!("at {:?} ({:?}): stored digest {} != recomputed {}", p.path, p.kind, hex::encode(&p.d[..4]), hex::encode(&r[..4]))); }
    }
    Ok(())
}

// ---------------------------------------------------------------------------------------
// grammar recogniser over serialized bytes

/// Parses `bytes` as a tagged envelope and checks the grammar of draft section 3 (+ the
/// known-value / encrypted / compressed extensions). Returns the root digest computed from
/// the bytes alone. dcbor's decoder is trusted for dCBOR well-formedness of the byte level.
pub fn grammar(bytes: &[u8]) -> Result<D, String> {
    let cbor = CBOR::try_from_data(bytes).map_err(|e| format!("not dCBOR: {}", e))?;
    if cbor.to_cbor_data() != bytes { return Err("dcbor re-encoding differs from input (not deterministic)".into()); }
    match cbor.as_case() {
        CBORCase::Tagged(t, inner) if t.value() == 200 => content(inner),
        _ => Err("top level is not #6.200".into()),
    }
}

fn tagged_digest_bytes(c: &CBOR) -> Option<D> {
    if let CBORCase::Tagged(t, inner) = c.as_case() {
        if t.value() == 40001 {
            if let CBORCase::ByteString(b) = inner.as_case() {
                let b: &[u8] = b.as_ref();
                if b.len() == 32 { let mut d = [0u8; 32]; d.copy_from_slice(b); return Some(d); }
            }
        }
    }
    None
}

fn assertion_like_cbor(c: &CBOR) -> bool {
    match c.as_case() {
        CBORCase::Map(_) => true,
        CBORCase::ByteString(_) => true,
        CBORCase::Tagged(t, _) => t.value() == 40002 || t.value() == 40003,
        CBORCase::Array(v) => !v.is_empty() && assertion_like_cbor(&v[0]),
        _ => false,
    }
}

pub fn content(c: &CBOR) -> Result<D, String> {
    match c.as_case() {
        CBORCase::Tagged(t, inner) => match t.value() {
            201 => Ok(sha(&inner.to_cbor_data())),
            200 => Ok(sha(&content(inner)?)),
            40002 => {
                let CBORCase::Array(v) = inner.as_case() else { return Err("encrypted: not an array".into()) };
                if v.len() != 4 { return Err("encrypted element without digest (aad)".into()); }
                for x in v { if !matches!(x.as_case(), CBORCase::ByteString(_)) { return Err("encrypted: non-bytes field".into()); } }
                let CBORCase::ByteString(aad) = v[3].as_case() else { unreachable!() };
                let aad: &[u8] = aad.as_ref();
                let ac = CBOR::try_from_data(aad).map_err(|_| "encrypted: aad is not CBOR".to_string())?;
                tagged_digest_bytes(&ac).ok_or_else(|| "encrypted: aad is not a tagged digest".to_string())
            }
            40003 => {
                let CBORCase::Array(v) = inner.as_case() else { return Err("compressed: not an array".into()) };
                if v.len() != 4 { return Err("compressed element without digest".into()); }
                tagged_digest_bytes(&v[3]).ok_or_else(|| "compressed: 4th field is not a tagged digest".to_string())
            }
            o => Err(format!("unknown tag {}", o)),
        },
        CBORCase::ByteString(b) => {
            let b: &[u8] = b.as_ref();
            if b.len() != 32 { return Err(format!("elided digest of {} bytes", b.len())); }
            let mut d = [0u8; 32]; d.copy_from_slice(b); Ok(d)
        }
        CBORCase::Array(v) => {
            if v.len() < 2 { return Err("node with no assertion".into()); }
            let mut img = content(&v[0])?.to_vec();
            let mut ds = vec![];
            for x in &v[1..] {
                if !assertion_like_cbor(x) { return Err("non-assertion in assertion slot".into()); }
                ds.push(content(x)?);
            }
            for w in ds.windows(2) {
                if w[0] == w[1] { return Err("repeated assertion digest".into()); }
                if !rt::before(&w[0], &w[1]) { return Err("assertion elements out of ascending order".into()); }
            }
            for d in ds { img.extend_from_slice(&d); }
            Ok(sha(&img))
        }
        CBORCase::Map(m) => {
            if m.len() != 1 { return Err(format!("assertion map with {} entries", m.len())); }
            let (k, v) = m.iter().next().unwrap();
            let mut img = content(k)?.to_vec();
            img.extend_from_slice(&content(v)?);
            Ok(sha(&img))
        }
        CBORCase::Unsigned(v) => { let mut img = cbor_head(6, 40000); img.extend(cbor_head(0, *v)); Ok(sha(&img)) }
        _ => Err("not an envelope case".into()),
    }
}

/// canonical + well-formed: structure check, serialized grammar check, digests agree
pub fn well_formed(e: &Envelope) -> Result<(), String> {
    check_tree(e)?;
    let bytes = e.tagged_cbor().to_cbor_data();
    let d = grammar(&bytes)?;
    if d != dg(e) { return Err(format!("digest from bytes {} != digest() {}", hex::encode(&d[..4]), hex::encode(&dg(e)[..4]))); }
    Ok(())
}

// ---------------------------------------------------------------------------------------
// reference elision semantics (documentation of elide_removing_* / elide_revealing_*)

/// Expected visibility of each position of `orig` after obscuring with target set `t`:
/// returns for every position path whether it must be obscured itself (`Some(true)`), must be
/// present unobscured (`Some(false)`), or is absent because an ancestor was replaced (`None`).
pub fn expected_elision(orig: &Envelope, t: &HashSet<D>, revealing: bool) -> Vec<(Vec<usize>, Option<bool>)> {
    fn rec(e: &Envelope, path: &mut Vec<usize>, t: &HashSet<D>, revealing: bool, gone: bool, out: &mut Vec<(Vec<usize>, Option<bool>)>) {
        if gone { out.push((path.clone(), None)); }
        let hit = t.contains(&dg(e)) != revealing;
        if !gone { out.push((path.clone(), Some(hit))); }
        for (i, (_, c)) in children(e).into_iter().enumerate() {
            path.push(i);
            rec(&c, path, t, revealing, gone || hit, out);
            path.pop();
        }
    }
    let mut out = vec![];
    rec(orig, &mut vec![], t, revealing, false, &mut out);
    out
}

/// multiset-free list of distinct element digests of an envelope, in pre-order
pub fn distinct_digests(e: &Envelope) -> Vec<D> {
    let mut seen = HashSet::new();
    positions(e).into_iter().filter(|p| seen.insert(p.d)).map(|p| p.d).collect()
}

pub fn to_set(ds: &[D]) -> HashSet<Digest> { ds.iter().map(|d| Digest::from_data(*d)).collect() }

/// sort digests the way the path condition (else the bytes) orders them
pub fn sort_digests(v: &mut Vec<D>) { insertion_sort(v, |a, b| rt::before(a, b)); }

// ---------------------------------------------------------------------------------------
// conformance of a library envelope to a spec tree (kind, digest and order at every position)

use crate::spec::{spec_digest, Spec};

pub fn spec_kind(s: &Spec) -> Kind {
    match s {
        Spec::Leaf(_) => Kind::Leaf, Spec::Kv(_) => Kind::Known, Spec::Wrap(_) => Kind::Wrapped, Spec::Assert(..) => Kind::Assertion,
        Spec::Node(..) => Kind::Node, Spec::Elided(_) => Kind::Elided, Spec::Encrypted(_) => Kind::Encrypted, Spec::Compressed(_) => Kind::Compressed,
    }
}

/// Every position of `e` has the case the spec says and the digest the specification defines
/// for it; node assertions are exactly the spec's (as a set of digests), strictly ascending.
pub fn conforms(e: &Envelope, s: &Spec) -> Result<(), String> {
    fn rec(e: &Envelope, s: &Spec, path: &mut Vec<usize>) -> Result<(), String> {
        let want = spec_digest(s);
        if kind(e) != spec_kind(s) { return Err(format!("at {:?}: case {:?}, specification says {:?}", path, kind(e), spec_kind(s))); }
        if dg(e) != want { return Err(format!("at {:?} ({:?}): digest() = {}.., specification gives {}..", path, kind(e), hex::encode(&dg(e)[..4]), hex::encode(&want[..4]))); }
        match (e.case(), s) {
            (EnvelopeCase::Wrapped { envelope, .. }, Spec::Wrap(x)) => { path.push(0); rec(envelope, x, path)?; path.pop(); }
            (EnvelopeCase::Assertion(a), Spec::Assert(p, o)) => {
                path.push(0); rec(&a.predicate(), p, path)?; path.pop();
                path.push(1); rec(&a.object(), o, path)?; path.pop();
            }
            (EnvelopeCase::Node { subject, assertions, .. }, Spec::Node(sub, sa)) => {
                path.push(0); rec(subject, sub, path)?; path.pop();
                let mut want: Vec<(D, &Spec)> = vec![];
                for x in sa { let d = spec_digest(x); if !want.iter().any(|w| w.0 == d) { want.push((d, x)); } }
                if want.len() != assertions.len() { return Err(format!("at {:?}: {} assertion elements, specification says {}", path, assertions.len(), want.len())); }
                for w in assertions.windows(2) {
                    if dg(&w[0]) == dg(&w[1]) { return Err(format!("at {:?}: repeated assertion digest", path)); }
                    if !rt::before(&dg(&w[0]), &dg(&w[1])) { return Err(format!("at {:?}: assertions not in ascending digest order", path)); }
                }
                for (i, a) in assertions.iter().enumerate() {
                    let Some((_, sx)) = want.iter().find(|w| w.0 == dg(a)) else { return Err(format!("at {:?}: assertion element {} has a digest the specification does not give to any assertion", path, i)); };
                    path.push(i + 1); rec(a, sx, path)?; path.pop();
                }
            }
            _ => {}
        }
        Ok(())
    }
    rec(e, s, &mut vec![])
}
