//! Driver. Built twice from the same source:
//!   /verif/symord  (feature "hook", patched bc-components)  -> symbolic exploration
//!   /verif/replay  (stock bc-components)                    -> native replay / validation
use std::io::Write;
use std::time::Instant;
use symord::engine::{self, Config, Outcome};
use symord::props;

fn arg(args: &[String], name: &str) -> Option<String> {
    args.iter().position(|a| a == name).and_then(|i| args.get(i + 1).cloned())
}

fn main() {
    let args: Vec<String> = std::env::args().collect();
    engine::install_panic_hook();
    bc_envelope::register_tags();
    if let Some(path) = arg(&args, "--replay") { std::process::exit(replay_file(&path)); }
    if let Some(path) = arg(&args, "--validate") { std::process::exit(validate_file(&path)); }
    if args.iter().any(|a| a == "--shapes") {
        use symord::spec::*;
        for sz in 1..=11 {
            for (kv, obs) in [(false, false), (true, false), (true, true)] {
                let v = enumerate(&EnumOpts { max_size: sz, max_assertions: 3, kv, decorated: true, obscured: obs, wrap: true });
                println!("max_size={} kv={} obscured={} shapes={}", sz, kv, obs, v.len());
                if sz == 5 && kv && !obs { for s in &v { println!("   {}", s.show()); } }
            }
        }
        return;
    }
    if args.iter().any(|a| a == "--describe") {
        for p in props::all() {
            println!("**{}**\n", p.id);
            for s in &p.scenarios { println!("* `{}`{} — {}.", s.name, if s.thorough_only { " (thorough only)" } else { "" }, s.bounds); }
            println!();
        }
        return;
    }
    if args.iter().any(|a| a == "--list") {
        for p in props::all() { for s in &p.scenarios { println!("{} {}{}", p.id, s.name, if s.thorough_only { " (thorough)" } else { "" }); } }
        return;
    }
    #[cfg(feature = "hook")]
    if let Ok(pfx) = std::env::var("SYMORD_DEBUG_PREFIX") {
        // debug: run one path of one scenario with the given decision values, several times, and print its decision points
        use symord::rt::{Mode, Pending, Rt};
        *bc_components::VERIF_ORDER_HOOK.write().unwrap() = Some(symord::rt::hook);
        let prop = args.get(1).cloned().unwrap_or_default();
        let scen = arg(&args, "--scenario").unwrap_or_default();
        let f = find_scenario(&prop, &scen).expect("unknown scenario");
        let values: Vec<u32> = pfx.split(',').filter(|x| !x.is_empty()).map(|x| x.trim().parse().unwrap()).collect();
        for round in 0..5 {
            let mut rtm = Some(Rt::new(Mode::Symbolic, seed()));
            let (o, _) = engine::run_one_path(&mut rtm, f, Pending { values: values.clone(), sigs: vec![] });
            let r = rtm.unwrap();
            println!("round {}: outcome {:?} points {:?}", round, o, r.points.iter().map(|p| (p.sig.clone(), p.taken)).collect::<Vec<_>>());
        }
        return;
    }
    #[cfg(feature = "hook")]
    {
        let prop = args.get(1).cloned().unwrap_or_default();
        let tier = arg(&args, "--tier").or_else(|| std::env::var("VERIF_TIER").ok()).unwrap_or_else(|| "quick".into());
        let only = arg(&args, "--scenario");
        std::process::exit(explore_property(&prop, &tier, only.as_deref()));
    }
    #[cfg(not(feature = "hook"))]
    {
        eprintln!("this is the replay build: use --replay <file> or --validate <file>");
        std::process::exit(2);
    }
}

fn seed() -> u64 { std::env::var("VERIF_SEED").ok().and_then(|s| s.parse::<u64>().ok()).unwrap_or(1) }

fn find_scenario(prop: &str, name: &str) -> Option<fn() -> symord::rt::R> {
    props::all().into_iter().find(|p| p.id == prop).and_then(|p| p.scenarios.into_iter().find(|s| s.name == name).map(|s| s.f))
}

/// native replay: search real-hash instances (nonces) until the violation with the same role key reproduces
fn replay_file(path: &str) -> i32 {
    let txt = std::fs::read_to_string(path).expect("cannot read replay file");
    let v: serde_json::Value = serde_json::from_str(&txt).expect("replay file is not JSON");
    let prop = v["property"].as_str().unwrap().to_string();
    let scen = v["scenario"].as_str().unwrap().to_string();
    let site = v["site"].as_str().unwrap().to_string();
    let choices: Vec<u32> = v["choices"].as_array().unwrap().iter().map(|x| x.as_u64().unwrap() as u32).collect();
    let nonce0 = v["nonce"].as_u64().unwrap_or(1);
    let tries = v["max_tries"].as_u64().unwrap_or(20000);
    let Some(f) = find_scenario(&prop, &scen) else { eprintln!("unknown scenario {} {}", prop, scen); return 2 };
    let t0 = Instant::now();
    for k in 0..tries {
        let nonce = nonce0.wrapping_add(k.wrapping_mul(0x9e37_79b9_7f4a_7c15));
        if let Outcome::Viol { site: s, msg } = engine::run_concrete(f, choices.clone(), nonce) {
            if s == site {
                println!("REPRODUCED property={} scenario={} site={:?} nonce={} tries={} msg={}", prop, scen, site, nonce, k + 1, msg);
                return 0;
            }
        }
        if t0.elapsed().as_secs() > 300 { break; }
    }
    println!("NOT-REPRODUCED property={} scenario={} site={:?}", prop, scen, site);
    3
}

/// native validation: sampled choice vectors run on the stock build must not violate
fn validate_file(path: &str) -> i32 {
    let txt = std::fs::read_to_string(path).expect("cannot read file");
    let v: serde_json::Value = serde_json::from_str(&txt).expect("not JSON");
    let prop = v["property"].as_str().unwrap().to_string();
    let mut n = 0;
    for item in v["runs"].as_array().unwrap() {
        let scen = item["scenario"].as_str().unwrap();
        let Some(f) = find_scenario(&prop, scen) else { eprintln!("unknown scenario {}", scen); return 2 };
        let choices: Vec<u32> = item["choices"].as_array().unwrap().iter().map(|x| x.as_u64().unwrap() as u32).collect();
        let nonce = item["nonce"].as_u64().unwrap_or(1);
        match engine::run_concrete(f, choices.clone(), nonce) {
            Outcome::Viol { site, msg } => { println!("NATIVE-VIOLATION scenario={} site={:?} choices={:?} msg={}", scen, site, choices, msg); }
            _ => n += 1,
        }
    }
    println!("VALIDATED {}", n);
    0
}

#[cfg(feature = "hook")]
fn explore_property(prop: &str, tier: &str, only: Option<&str>) -> i32 {
    use symord::engine::Report;
    let Some(p) = props::all().into_iter().find(|p| p.id == prop) else { eprintln!("unknown property {}", prop); return 2 };
    *bc_components::VERIF_ORDER_HOOK.write().unwrap() = Some(symord::rt::hook);
    let t0 = Instant::now();
    let thorough = tier == "thorough";
    std::env::set_var("SYMORD_TIER", tier);
    let threads = std::env::var("SYMORD_THREADS").ok().and_then(|s| s.parse().ok()).unwrap_or(16usize);
    let max_paths = std::env::var("SYMORD_MAX_PATHS").ok().and_then(|s| s.parse().ok()).unwrap_or(if thorough { 40_000_000u64 } else { 4_000_000 });
    let cfg = Config { threads, max_paths, nonce: seed(), cvc5: thorough || std::env::var("SYMORD_CVC5").is_ok(), keep_cert: std::env::var("SYMORD_KEEP_CERT").ok() };
    let mut reports: Vec<Report> = vec![];
    for sc in &p.scenarios {
        if sc.thorough_only && !thorough { continue; }
        if let Some(o) = only { if o != sc.name { continue; } }
        let r = engine::explore(sc, &cfg);
        eprintln!("[{}] {}: paths={} completed={} skipped={} order_paths={} forks={} queries={} pruned={} max_syms={} depth={} cert={} ({:.2}s, {} B) viol_sites={} wall={:.1}s{}",
            prop, sc.name, r.paths, r.completed, r.skipped, r.order_paths, r.stats.forks, r.stats.queries, r.stats.pruned, r.max_syms, r.max_depth,
            r.cert, r.cert_s, r.cert_bytes, r.violations.len(), r.wall_s, r.incomplete.as_ref().map(|s| format!(" INCOMPLETE: {}", s)).unwrap_or_default());
        reports.push(r);
    }
    // violations: replay natively on the stock build, then classify against known_findings.json
    let known = load_known();
    let mut exit = 0;
    let mut n_viol = 0;
    let mut known_lines = vec![];
    let mut inconc: Vec<String> = vec![];
    let replay_bin = std::env::var("SYMORD_REPLAY_BIN").unwrap_or_else(|_| format!("{}/replay/target/release/replay", engine::root()));
    let _ = std::fs::create_dir_all(format!("{}/replays", engine::root()));
    for r in &reports {
        for v in &r.violations {
            n_viol += 1;
            let key = format!("{}/{}", r.scenario, v.site);
            let fname = format!("{}/replays/{}-{}.json", engine::root(), prop, sanitize(&key));
            let j = serde_json::json!({
                "property": prop, "scenario": r.scenario, "site": v.site, "choices": v.choices, "nonce": seed(),
                "order_literals": v.lits.iter().map(|(i, j)| format!("d{}<d{}", i, j)).collect::<Vec<_>>(),
                "message": v.msg, "notes": v.notes, "paths_with_this_site": v.count, "max_tries": 20000,
            });
            std::fs::write(&fname, serde_json::to_string_pretty(&j).unwrap()).unwrap();
            let out = std::process::Command::new(&replay_bin).args(["--replay", &fname]).output();
            let (code, text) = match out { Ok(o) => (o.status.code().unwrap_or(2), String::from_utf8_lossy(&o.stdout).to_string()), Err(e) => (2, format!("cannot run replay binary: {}", e)) };
            if code == 0 {
                if let Some(desc) = known.iter().find(|k| k.0 == prop && k.1 == key) {
                    known_lines.push(format!("KNOWN-FINDING: property={} {} [{}]", prop, desc.2, key));
                } else {
                    println!("VIOLATION property={} replay={}", prop, fname);
                    println!("  scenario={} site={:?} on {} paths: {}", r.scenario, v.site, v.count, v.msg);
                    println!("  native: {}", text.trim());
                    exit = 1;
                }
            } else {
                inconc.push(format!("INCONCLUSIVE: counterexample did not reproduce natively (engine/harness error?) property={} key={:?} msg={} :: {}", prop, key, v.msg, text.trim()));
                if exit == 0 { exit = 2; }
            }
        }
    }
    // Fallback: every counterexample failed to reproduce natively AND the audit found code comparing digest bytes directly
    // (so the symbolic order no longer describes what the code does, e.g. a sort rewritten to compare `digest().data()`):
    // decide the property over real hash orders instead (choices stay solver-certified), for three seeds, and say so.
    let audit_new: Vec<String> = std::env::var("SYMORD_AUDIT").ok().and_then(|a| serde_json::from_str::<serde_json::Value>(&a).ok())
        .and_then(|v| v["new_uses"].as_array().map(|a| a.iter().filter_map(|x| x.as_str().map(|s| s.to_string())).collect())).unwrap_or_default();
    if exit == 2 && !audit_new.is_empty() && !symord::rt::real_order() && reports.iter().all(|r| r.incomplete.is_none()) {
        println!("NOTE: no counterexample reproduced natively and the code compares digest bytes directly ({}): the symbolic digest order is abandoned for this run; deciding over real hash orders (3 seeds), choice variables still solver-certified", audit_new.join(" | "));
        let exe = std::env::current_exe().expect("current_exe");
        let args: Vec<String> = std::env::args().skip(1).collect();
        let mut worst = 0;
        for k in 0..3u64 {
            let st = std::process::Command::new(&exe).args(&args).env("SYMORD_REAL_ORDER", "1").env("VERIF_SEED", (seed() + k).to_string()).status();
            let c = st.ok().and_then(|s| s.code()).unwrap_or(2);
            if c == 1 { worst = 1; } else if c != 0 && worst == 0 { worst = 2; }
        }
        return worst;
    }
    for l in &inconc { println!("{}", l); }
    for l in &known_lines { println!("{}", l); }
    for r in &reports { if let Some(m) = &r.incomplete { println!("INCONCLUSIVE: scenario {} incomplete: {}", r.scenario, m); if exit == 0 { exit = 2; } } }

    // native validation of sampled paths on the stock build
    let mut validated = 0u64;
    {
        let runs: Vec<serde_json::Value> = reports.iter().flat_map(|r| r.sample_choices.iter().map(move |c| serde_json::json!({"scenario": r.scenario, "choices": c, "nonce": seed()}))).collect();
        if !runs.is_empty() {
            let f = format!("{}/symord/target/tmp/validate-{}-{}.json", engine::root(), prop, std::process::id());
            let _ = std::fs::create_dir_all(format!("{}/symord/target/tmp", engine::root()));
            std::fs::write(&f, serde_json::to_string(&serde_json::json!({"property": prop, "runs": runs})).unwrap()).unwrap();
            if let Ok(o) = std::process::Command::new(&replay_bin).args(["--validate", &f]).output() {
                let s = String::from_utf8_lossy(&o.stdout).to_string();
                for l in s.lines() {
                    if let Some(n) = l.strip_prefix("VALIDATED ") { validated = n.trim().parse().unwrap_or(0); }
                    if l.starts_with("NATIVE-VIOLATION") { eprintln!("{}", l); }
                }
            }
            let _ = std::fs::remove_file(&f);
        }
    }

    // evidence
    let paths: u64 = reports.iter().map(|r| r.paths).sum();
    let nontrivial: u64 = reports.iter().map(|r| r.nontrivial).sum();
    let states: u64 = reports.iter().map(|r| r.tree_nodes).sum();
    let transitions: u64 = reports.iter().map(|r| r.tree_edges).sum();
    let queries: u64 = reports.iter().map(|r| r.stats.queries).sum();
    let solver_s: f64 = reports.iter().map(|r| r.stats.solver_ns as f64 / 1e9 + r.cert_s).sum();
    let samples: Vec<serde_json::Value> = reports.iter().flat_map(|r| r.samples.iter().take(2).map(move |s| serde_json::json!({"scenario": r.scenario, "path": s}))).collect();
    let ev = serde_json::json!({
        "property_id": prop,
        "tier": if thorough { "thorough" } else { "quick" },
        "seed": seed(),
        "level": "model_checking",
        "coverage": {
            "states": states.max(1), "transitions": transitions.max(1),
            "traces_validated_against_impl": validated,
            "evaluations": paths, "distinct_nontrivial": nontrivial,
            "rule": "one evaluation = one execution path of the real bc-envelope code under one solver-consistent class of digest orders and one assignment of the scenario's choice variables (fork by re-execution); paths are distinct by construction (distinct decision vectors); non-trivial = reached the end of the scenario (not cut by an assume) and took at least one forking decision",
            "samples": samples,
            "exhaustive": reports.iter().all(|r| r.incomplete.is_none()),
            "order_mode": if symord::rt::real_order() { "REAL hash order for this seed (fallback: the code compares digest bytes directly, see audit_digest_bytes.new_uses; the order dimension is sampled over 3 seeds, not solver-quantified)" } else { "symbolic (solver-quantified)" },
            "technique": "SymOrd: symbolic digest order + symbolic choices over the natively compiled code, z3 decides every order query; coverage certificate (z3" .to_string() + if cfg.cvc5 { " and cvc5" } else { "" } + ") proves the explored path conditions cover every total order and every choice assignment within the bound",
            "scenarios": reports.iter().map(|r| serde_json::json!({
                "name": r.scenario, "bounds": p.scenarios.iter().find(|s| s.name == r.scenario).map(|s| s.bounds),
                "functions_encoded": p.scenarios.iter().find(|s| s.name == r.scenario).map(|s| s.api),
                "paths": r.paths, "completed": r.completed, "cut_by_assume": r.skipped, "paths_with_order_fork": r.order_paths,
                "forks": r.stats.forks, "solver_queries": r.stats.queries, "entailment_queries": r.stats.entail_queries, "pruned_unsat": r.stats.pruned,
                "solver_answers_contradicted_by_closure_audit": r.stats.solver_disagreements, "solver_restarts": r.stats.solver_restarts,
                "digest_comparisons_intercepted": r.stats.hook_calls, "answered_from_path_cache": r.stats.hook_cached,
                "max_digest_symbols": r.max_syms, "max_decisions_on_a_path": r.max_depth,
                "solver_time_s": r.stats.solver_ns as f64 / 1e9,
                "coverage_certificate": {"z3": r.cert, "cvc5": r.cert_cvc5, "bytes": r.cert_bytes, "time_s": r.cert_s},
                "violation_sites": r.violations.iter().map(|v| serde_json::json!({"site": v.site, "paths": v.count, "message": v.msg})).collect::<Vec<_>>(),
                "wall_s": r.wall_s, "incomplete": r.incomplete,
            })).collect::<Vec<_>>(),
            "solver_queries": queries, "solver_time_s": solver_s,
            "known_findings_reported": known_lines,
            "audit_digest_bytes": std::env::var("SYMORD_AUDIT").ok().and_then(|a| serde_json::from_str::<serde_json::Value>(&a).ok()),
        },
        "assumptions": p.assumptions,
        "wall_s": t0.elapsed().as_secs_f64(),
        "violations": n_viol,
    });
    let _ = std::fs::create_dir_all(format!("{}/evidence", engine::root()));
    let mut f = std::fs::File::create(format!("{}/evidence/{}.json", engine::root(), prop)).unwrap();
    f.write_all(serde_json::to_string_pretty(&ev).unwrap().as_bytes()).unwrap();
    println!("{} tier={} paths={} queries={} violations={} exit={} wall={:.1}s", prop, tier, paths, queries, n_viol, exit, t0.elapsed().as_secs_f64());
    exit
}

#[cfg(feature = "hook")]
fn sanitize(s: &str) -> String { s.chars().map(|c| if c.is_ascii_alphanumeric() { c } else { '_' }).collect::<String>().chars().take(120).collect() }

/// (property, key, description) of findings with status "known"
#[cfg(feature = "hook")]
fn load_known() -> Vec<(String, String, String)> {
    let Ok(txt) = std::fs::read_to_string(format!("{}/known_findings.json", engine::root())) else { return vec![] };
    let Ok(v) = serde_json::from_str::<serde_json::Value>(&txt) else { symord::rt::inconclusive("known_findings.json is not valid JSON") };
    v["findings"].as_array().map(|a| a.iter().filter(|f| f["status"] == "known").map(|f| (
        f["property"].as_str().unwrap_or("").to_string(), f["key"].as_str().unwrap_or("").to_string(), f["what"].as_str().unwrap_or("").to_string())).collect()).unwrap_or_default()
}
